# -*- coding: utf-8 -*-
"""
Interpretation (abstract -> concrete) and projection (concrete -> abstract) for Setup.tla.

interp  : apply the scipy operations named in a symbolic data term to the initial arrays
          (scipy only - nothing from pyoma2)
World   : a real SingleSetup / MultiSetup_PreGER object together with the arrays the "user"
          handed in and pristine copies of them
"""
from __future__ import annotations

import os
import tempfile
import typing

import numpy as np
from scipy import signal

from . import tables


# --------------------------------------------------------------------------------------
# data
# --------------------------------------------------------------------------------------
def make_datasets(n0: typing.Sequence[int], nch: typing.Sequence[int], seed: int, fs: float):
    """Coloured-noise records with two resonances each (so every algorithm class finds poles)."""
    rng = np.random.default_rng(seed)
    out = []
    for n, c in zip(n0, nch):
        e = rng.standard_normal((n + 200, 2))
        y = np.zeros((n + 200, 2))
        for k, (f, xi) in enumerate(((0.06, 0.02), (0.17, 0.015))):  # cycles / sample
            w = 2 * np.pi * f
            r = np.exp(-xi * w)
            a = [1.0, -2 * r * np.cos(w * np.sqrt(1 - xi**2)), r * r]
            y[:, k] = signal.lfilter([1.0], a, e[:, k])
        mix = rng.standard_normal((2, c))
        x = y[200:] @ mix + 0.05 * rng.standard_normal((n, c))
        x += np.linspace(0.3, -0.2, n)[:, None] * rng.standard_normal((1, c)) + 0.5  # trend + offset
        out.append(np.ascontiguousarray(x))
    return out


def interp_one(x: np.ndarray, hist, fs0: float) -> np.ndarray:
    """Apply the data term `hist` to one array with scipy, exactly as the property words it."""
    fs = float(fs0)
    y = x
    for op in hist:
        if op[0] == "dec":
            y = signal.decimate(y, int(op[1]), axis=0, **tables.DEC_VARIANTS[op[2]])
            fs = fs / int(op[1])
        elif op[0] == "det":
            y = signal.detrend(y, axis=0, **tables.DET_VARIANTS[op[1]])
        elif op[0] == "fil":
            kw = tables.FIL_OPS[int(op[1])]
            sos = signal.butter(kw.get("order", 8), kw["Wn"], btype=kw.get("btype", "lowpass"),
                                output="sos", fs=fs)
            y = signal.sosfiltfilt(sos, y, axis=0)
        else:
            raise ValueError(op)
    return y


def split(y: np.ndarray, ref: typing.Sequence[int]):
    """Layout!RefChans / MovChans: references in listed order, roving channels ascending."""
    mov = [c for c in range(y.shape[1]) if c not in set(ref)]
    return {"ref": y[:, list(ref)].T, "mov": y[:, mov].T}


class Interp:
    """Memoised interpretation of data terms for one set of initial arrays."""

    def __init__(self, kind: str, datasets, fs0: float, ref_ind=None):
        self.kind = kind
        self.datasets = [d.copy() for d in datasets]
        self.fs0 = fs0
        self.ref_ind = ref_ind
        self._memo: typing.Dict[str, typing.Any] = {}

    def arrays(self, hist):
        k = repr(hist)
        if k not in self._memo:
            if len(hist) and repr(hist[:-1]) in self._memo and hist[-1][0] != "fil":
                prev = self._memo[repr(hist[:-1])]
                self._memo[k] = [interp_one(a, hist[-1:], self.fs0) for a in prev]
            else:
                self._memo[k] = [interp_one(a, hist, self.fs0) for a in self.datasets]
        return self._memo[k]

    def data(self, hist):
        arrs = self.arrays(hist)
        if self.kind == "single":
            return arrs[0]
        return [split(a, r) for a, r in zip(arrs, self.ref_ind)]


# --------------------------------------------------------------------------------------
# world
# --------------------------------------------------------------------------------------
class World:
    def __init__(self, kind: str, datasets, fs0: float, ref_ind=None):
        from pyoma2.setup import MultiSetup_PreGER, SingleSetup

        self.kind = kind
        self.fs0 = fs0
        self.user = [d.copy() for d in datasets]      # what the user hands in
        self.orig = [d.copy() for d in datasets]      # pristine copies, never given away
        self.ref_ind = [list(r) for r in ref_ind] if ref_ind is not None else None
        self.user_ref = [list(r) for r in ref_ind] if ref_ind is not None else None
        if kind == "single":
            self.setup = SingleSetup(self.user[0], fs=fs0)
        else:
            self.setup = MultiSetup_PreGER(fs=fs0, ref_ind=self.user_ref, datasets=self.user)
        self.last_exc = None
        self.saveload_ok = True

    # ----- actions
    def apply(self, act, alg_factory=None, mpe_args=None):
        s = self.setup
        self.last_exc = None
        try:
            n = act["name"]
            if n == "Decimate":
                s.decimate_data(q=int(act["q"]), **tables.DEC_VARIANTS[act["v"]])
            elif n == "Detrend":
                s.detrend_data(**tables.DET_VARIANTS[act["t"]])
            elif n == "Filter":
                s.filter_data(**tables.FIL_OPS[int(act["f"])])
            elif n == "Rollback":
                s.rollback()
            elif n == "Add":
                s.add_algorithms(alg_factory(self.kind, act["cls"], act["alg"], act["par"]))
            elif n == "RunByName":
                s.run_by_name(act["alg"])
            elif n == "RunAll":
                s.run_all()
            elif n == "Mpe":
                a = s.algorithms.get(act["alg"]) if hasattr(s, "algorithms") else None
                args = mpe_args(a) if a is not None else {"sel_freq": [1.0]}
                s.mpe(act["alg"], **args)
            elif n == "SaveLoad":
                from pyoma2.functions.gen import load_from_file, save_to_file

                fd, path = tempfile.mkstemp(suffix=".pkl")
                os.close(fd)
                try:
                    save_to_file(s, path)
                    self.setup = load_from_file(path)
                finally:
                    os.remove(path)
                self.saveload_ok = self._same_setup(s, self.setup)
            else:
                raise AssertionError(f"unknown action {act}")
            return False
        except AssertionError:
            raise
        except Exception as e:  # the linearisation point of a rejected call is its raise
            self.last_exc = e
            return True

    @staticmethod
    def _same_setup(a, b):
        """equal parameters and results after a pickle round trip"""
        from .props.c15 import same_obj

        if type(a) is not type(b) or list(a.algorithms) != list(b.algorithms):
            return False
        for n in a.algorithms:
            x, y = a.algorithms[n], b.algorithms[n]
            if type(x) is not type(y) or not same_obj(x.run_params, y.run_params) or not same_obj(x.result, y.result):
                return False
            if not same_obj(getattr(x, "fs", None), getattr(y, "fs", None)):
                return False
        return True

    # ----- projections
    def meta(self):
        s = self.setup
        if self.kind == "single":
            return {"fs": s.fs, "dt": s.dt, "ndat": [s.Ndat], "T": [s.T],
                    "len": [np.asarray(s.data).shape[0]]}
        return {"fs": s.fs, "dt": s.dt, "ndat": list(s.Ndats), "T": list(s.Ts),
                "len": [d["ref"].shape[1] for d in s.data]}

    def data(self):
        return self.setup.data

    def user_untouched(self):
        ok = all(np.array_equal(u, o) for u, o in zip(self.user, self.orig))
        if self.ref_ind is not None:
            ok = ok and self.user_ref == self.ref_ind
        return ok

    def initial_copy_untouched(self):
        s = self.setup
        if self.kind == "single":
            return np.array_equal(s._initial_data, self.orig[0]) and s._initial_fs == self.fs0
        return (all(np.array_equal(a, o) for a, o in zip(s._initial_datasets, self.orig))
                and s._initial_fs == self.fs0 and [list(r) for r in s._initial_ref_ind] == self.ref_ind)


def same_data(kind, got, exp, rtol=1e-9, atol=1e-12):
    """Equality of a concrete data object with an interpreted data term."""
    try:
        if kind == "single":
            got = np.asarray(got)
            return got.shape == exp.shape and np.allclose(got, exp, rtol=rtol, atol=atol)
        if len(got) != len(exp):
            return False
        for g, e in zip(got, exp):
            for k in ("ref", "mov"):
                if g[k].shape != e[k].shape or not np.allclose(g[k], e[k], rtol=rtol, atol=atol):
                    return False
        return True
    except Exception:
        return False
