# -*- coding: utf-8 -*-
"""
Interpretation / projection for Poles.tla.

* catalogue of Gaussian-integer mode shapes, MPC / MPD limit lists and the classification tables the
  specification receives as constants (the indicators are the library's own - what they compute is
  C18's business, what is done with them is C09's)
* concrete(tab)  : abstract table -> numpy pole tables (Fn, Xi, Phi, Lambds, covariances)
* injected(...)  : context manager that makes the pole-producing functions of pyoma2 return given tables
                   (patched in the harness process only), so that the real `run()` methods of the six
                   pole-producing classes can be driven with tables from the specification
"""
from __future__ import annotations

import contextlib
import math

import numpy as np

from .core import Raw, tla

FDEN = 1000     # frequency ticks per Hz
XDEN = 100000   # damping ticks per unit
CDEN = 1000     # covariance ticks per unit

# shapes: Gaussian-integer vectors (3 channels)
SHAPES = [
    [(10, 0), (5, 0), (-3, 0)],     # 1 real
    [(10, 0), (5, 1), (-3, 0)],     # 2 nearly real, MAC with 1 ~ 0.9926
    [(2, 0), (-9, 0), (7, 0)],      # 3 another real shape, MAC with 1 small
    [(10, 0), (4, 4), (-2, 3)],     # 4 moderately complex
    [(10, 0), (1, 9), (-8, 2)],     # 5 strongly complex
    [(0, 10), (0, 5), (0, -3)],     # 6 = i * shape 1 (collinear: MPC 1, MPD 0)
]
MPC_LIMS = [0.0, 0.95, 0.7]          # k = 1: off
MPD_LIMS = [10.0, 0.05, 0.5]         # k = 1: off (any finite MPD passes)


def shape_vec(sh):
    return np.array([complex(a, b) for a, b in SHAPES[sh - 1]])


def norm_shape(sh):
    v = shape_vec(sh)
    return v / v[np.argmax(np.abs(v))]


def indicator_tables():
    """MpcGE[sh][k], MpdLE[sh][k] from the library's indicators; every value must be clear of every limit."""
    from pyoma2.functions import gen

    mpc = [float(gen.MPC(norm_shape(s))) for s in range(1, len(SHAPES) + 1)]
    mpd = [float(gen.MPD(norm_shape(s))) for s in range(1, len(SHAPES) + 1)]
    margin = min(min(abs(v - l) for v in mpc for l in MPC_LIMS[1:]), min(abs(v - l) for v in mpd for l in MPD_LIMS[1:]))
    ge = [[bool(v >= l) for l in MPC_LIMS] for v in mpc]
    le = [[bool(v <= l) for l in MPD_LIMS] for v in mpd]
    return ge, le, mpc, mpd, margin


def shapes_tla():
    return Raw("<<" + ", ".join("<<" + ", ".join(f"<<{a}, {b}>>" for a, b in s) + ">>" for s in SHAPES) + ">>")


def cell(f, xi, sh=1, cj=True, cov=1):
    return {"f": f, "xi": xi, "sh": sh, "cj": cj, "cov": cov}


NAN = {"nan": True}


def is_nan(c):
    return isinstance(c, dict) and c.get("nan") is True


def cell_tla(c):
    if is_nan(c):
        return "NaN"
    return tla(c)


def table_tla(t):
    return "<<" + ", ".join("<<" + ", ".join(cell_tla(c) for c in row) + ">>" for row in t) + ">>"


def lam_of(f_ticks, xi_ticks, sign=+1):
    w = 2 * math.pi * f_ticks / FDEN
    xi = xi_ticks / XDEN
    return complex(-xi * w, sign * w * math.sqrt(max(1 - xi * xi, 0.0)))


def concrete(tab, twins=False, nch=3):
    """
    abstract table (list of rows of cells) -> dict of numpy tables.
    twins=True : every pole slot becomes two rows, the pole and (when cj) its complex conjugate, so that
                 "conjugate present" is a fact about the concrete eigenvalue table.
    """
    nr, nc = len(tab), len(tab[0])
    k = 2 if twins else 1
    Fn = np.full((k * nr, nc), np.nan)
    Xi = np.full((k * nr, nc), np.nan)
    Lam = np.full((k * nr, nc), np.nan, dtype=complex)
    Phi = np.full((k * nr, nc, nch), np.nan, dtype=complex)
    Fc = np.full((k * nr, nc), np.nan)
    Xc = np.full((k * nr, nc), np.nan)
    Pc = np.full((k * nr, nc, nch), np.nan)
    for r in range(nr):
        for c in range(nc):
            p = tab[r][c]
            if is_nan(p):
                continue
            # a per-cell offset far below every tolerance keeps eigenvalues of different cells distinct
            # (twins only) a per-cell offset far below every tolerance keeps eigenvalues of different slots
            # distinct; without twins, equal abstract frequencies are bit-equal concrete frequencies
            eps = 1e-9 * (1 + r + nr * c) if twins else 0.0
            lam = lam_of(p["f"], p["xi"]) * (1 + eps)
            rows = [(k * r, lam, norm_shape(p["sh"]))]
            if twins and p["cj"]:
                rows.append((k * r + 1, lam.conjugate(), norm_shape(p["sh"]).conjugate()))
            uniq = 1 + 1e-7 * (1 + r + nr * c)   # every concrete cell carries its own damping / shape values
            for rr, l, ph in rows:
                Lam[rr, c] = l
                Fn[rr, c] = abs(l) / (2 * math.pi)
                Xi[rr, c] = -l.real / abs(l) * uniq
                ph = ph.copy()
                ph[int(np.argmin(np.abs(ph)))] *= uniq
                Phi[rr, c, :] = ph
                Fc[rr, c] = p["cov"] / CDEN * uniq
                Xc[rr, c] = 0.5 * p["cov"] / CDEN * uniq
                Pc[rr, c, :] = 0.25 * p["cov"] / CDEN * uniq
    return dict(Fn=Fn, Xi=Xi, Lam=Lam, Phi=Phi, Fn_cov=Fc, Xi_cov=Xc, Phi_cov=Pc)


# --------------------------------------------------------------------------------------
# injection
# --------------------------------------------------------------------------------------
@contextlib.contextmanager
def injected(t, unc=False):
    """Make the pole-producing functions return the tables `t` (copies), whatever the data."""
    from pyoma2.functions import fdd as F
    from pyoma2.functions import plscf as P
    from pyoma2.functions import ssi as S

    saved = (S.build_hank, S.SSI_fast, S.SSI_poles, S.SSI_multi_setup, P.pLSCF, P.pLSCF_poles, F.SD_est, F.SD_PreGER)

    def cp(a):
        return None if a is None else a.copy()

    def build_hank(*a, **k):
        return np.zeros((2, 2)), (np.zeros((4, 1)) if k.get("calc_unc") else None)

    def ssi_fast(*a, **k):
        return np.zeros((2, 2)), [np.zeros((1, 1))], [np.zeros((1, 1))], None, None, None, None

    def ssi_multi(*a, **k):
        return np.zeros((2, 2)), [np.zeros((1, 1))], [np.zeros((1, 1))]

    def ssi_poles(*a, **k):
        if k.get("calc_unc"):
            return cp(t["Fn"]), cp(t["Xi"]), cp(t["Phi"]), cp(t["Lam"]), cp(t["Fn_cov"]), cp(t["Xi_cov"]), cp(t["Phi_cov"])
        return cp(t["Fn"]), cp(t["Xi"]), cp(t["Phi"]), cp(t["Lam"]), None, None, None

    def plscf(*a, **k):
        return [np.zeros((2, 1, 1))], [np.zeros((2, 1, 1))]

    def plscf_poles(*a, **k):
        return cp(t["Fn"]), cp(t["Xi"]), cp(t["Phi"]), cp(t["Lam"])

    def sd(*a, **k):
        return np.arange(3.0), np.zeros((1, 1, 3), dtype=complex)

    S.build_hank, S.SSI_fast, S.SSI_poles, S.SSI_multi_setup = build_hank, ssi_fast, ssi_poles, ssi_multi
    P.pLSCF, P.pLSCF_poles, F.SD_est, F.SD_PreGER = plscf, plscf_poles, sd, sd
    try:
        yield
    finally:
        (S.build_hank, S.SSI_fast, S.SSI_poles, S.SSI_multi_setup, P.pLSCF, P.pLSCF_poles, F.SD_est, F.SD_PreGER) = saved


WARM_UP = True
POLE_CLASSES = ["SSIdat", "SSIcov", "SSIdat_MS", "SSIcov_MS", "pLSCF", "pLSCF_MS"]


def run_class(cls_name, t, *, ncols, hc, sc=None, ordmin=0, unc=False):
    """Run the real `run()` of a pole-producing class on injected tables; returns the result object."""
    from pyoma2 import algorithms as A

    k = getattr(A, cls_name)
    sc = sc or dict(err_fn=0.01, err_xi=0.05, err_phi=0.03)
    if cls_name.startswith("SSI"):
        kw = dict(br=2, ordmax=ncols - 1, ordmin=ordmin, hc=hc, sc=sc)
        if unc:
            kw.update(calc_unc=True, nb=4)
        alg = k(name="x", **kw)
    else:
        alg = k(name="x", ordmax=ncols, ordmin=ordmin, nxseg=16, hc=hc, sc=sc)
    data = np.zeros((32, 3))
    if cls_name.endswith("_MS"):
        alg._set_data([{"ref": data[:, :1].T, "mov": data[:, 1:].T}] * 2, fs=10.0)
    else:
        alg._set_data(data, fs=10.0)
    with injected(t, unc):
        alg._pre_run()
        if WARM_UP:
            # history: the judged run is the third run of this object - after a run under the strictest hard criteria and a
            # run under the requested hard criteria with other soft tolerances.  run() is specified as a function of the
            # current parameters and data, so what earlier runs left behind (caches, tables blanked in place, "nothing
            # changed" shortcuts) must not show in the judged result.
            hc_req, sc_req = alg.run_params.hc, alg.run_params.sc
            strict = dict(hc_req)
            strict.update(conj=True, xi_max=1e-9, mpc_lim=1.0, mpd_lim=0.0)
            if "cov_max" in strict:
                strict["cov_max"] = 1e-12
            alg.run_params.hc = strict
            alg._set_result(alg.run())
            alg.run_params.hc = hc_req
            alg.run_params.sc = dict(err_fn=1e-12, err_xi=1e-12, err_phi=1e-12)
            alg._set_result(alg.run())
            alg.run_params.sc = sc_req
        res = alg.run()
    alg._set_result(res)
    return alg
