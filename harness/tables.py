# -*- coding: utf-8 -*-
"""
Catalogues shared by the TLA+ specification (which only sees the ids) and the harness
(which gives the ids their numerical meaning).  One table, one meaning.
"""
# ---- Setup.tla ------------------------------------------------------------------------
# decimation variants: keyword arguments of scipy.signal.decimate documented in the docstrings
DEC_VARIANTS = {
    "default": {},
    "fir": {"ftype": "fir"},
    "n4": {"n": 4},
    "zp0": {"zero_phase": False},
    "firn": {"ftype": "fir", "n": 12},
}
# detrend variants: keyword arguments of scipy.signal.detrend documented in the docstrings
DET_VARIANTS = {
    "default": {},
    "linear": {"type": "linear"},
    "constant": {"type": "constant"},
    "bp": {"type": "linear", "bp": [40]},
}
# filter ids -> (Wn [Hz], order, btype); FIL_MAX is the largest critical frequency (integer Hz),
# the call is rejected by scipy (ValueError) unless  2 * FIL_MAX * qprod < Fs0
FIL_OPS = {
    1: {"Wn": 3.0, "order": 4, "btype": "lowpass"},
    2: {"Wn": (1.0, 2.0), "order": 2, "btype": "bandpass"},
    3: {"Wn": 1.0, "order": 3, "btype": "highpass"},
    4: {"Wn": 5.0},  # defaults: order 8 lowpass
}
FIL_MAX = {1: 3, 2: 2, 3: 1, 4: 5}

# ---- PoserMerge.tla -------------------------------------------------------------------
# scale patterns: a[i][k] (setup i = 0.., mode k = 0..) as exact fractions; magnitude in [0.05, 20], either sign
from fractions import Fraction as _Fr

SCALE_CAT = [_Fr(1), _Fr(-1), _Fr(2), _Fr(-1, 2), _Fr(3), _Fr(1, 20), _Fr(-20), _Fr(7, 5)]


def scale(pat: int, i: int, k: int):
    return SCALE_CAT[(pat + 3 * i + 5 * k + i * k) % len(SCALE_CAT)]


def global_shape(s: int, k: int, complex_=True):
    """catalogue value of global sensor s (1-based), mode k (0-based): a Gaussian integer"""
    re = ((3 * s + 7 * k) % 11) - 5
    im = ((5 * s + 2 * k) % 7) - 3 if complex_ else 0
    if re == 0 and im == 0:
        re = 4
    return complex(re, im)
