# -*- coding: utf-8 -*-
"""
Catalogues shared by the TLA+ specification (which only sees the ids) and the harness
(which gives the ids their numerical meaning).  One table, one meaning.
"""
# ---- Setup.tla ------------------------------------------------------------------------
# decimation variants: keyword arguments of scipy.signal.decimate documented in the docstrings
DEC_VARIANTS = {
    "default": {},
    "fir": {"ftype": "fir"},
    "n4": {"n": 4},
    "zp0": {"zero_phase": False},
    "firn": {"ftype": "fir", "n": 12},
}
# detrend variants: keyword arguments of scipy.signal.detrend documented in the docstrings
DET_VARIANTS = {
    "default": {},
    "linear": {"type": "linear"},
    "constant": {"type": "constant"},
    "bp": {"type": "linear", "bp": [40]},
}
# filter ids -> (Wn [Hz], order, btype); FIL_MAX is the largest critical frequency (integer Hz),
# the call is rejected by scipy (ValueError) unless  2 * FIL_MAX * qprod < Fs0
FIL_OPS = {
    1: {"Wn": 3.0, "order": 4, "btype": "lowpass"},
    2: {"Wn": (1.0, 2.0), "order": 2, "btype": "bandpass"},
    3: {"Wn": 1.0, "order": 3, "btype": "highpass"},
    4: {"Wn": 5.0},  # defaults: order 8 lowpass
}
FIL_MAX = {1: 3, 2: 2, 3: 1, 4: 5}

# ---- PoserMerge.tla -------------------------------------------------------------------
# scale patterns: a[i][k] (setup i = 0.., mode k = 0..) as exact fractions; magnitude in [0.05, 20], either sign
from fractions import Fraction as _Fr

SCALE_CAT = [_Fr(1), _Fr(-1), _Fr(2), _Fr(-1, 2), _Fr(3), _Fr(1, 20), _Fr(-20), _Fr(7, 5)]


def scale(pat: int, i: int, k: int):
    return SCALE_CAT[(pat + 3 * i + 5 * k + i * k) % len(SCALE_CAT)]


def global_shape(s: int, k: int, complex_=True):
    """catalogue value of global sensor s (1-based), mode k (0-based): a Gaussian integer"""
    re = ((3 * s + 7 * k) % 11) - 5
    im = ((5 * s + 2 * k) % 7) - 3 if complex_ else 0
    if re == 0 and im == 0:
        re = 4
    return complex(re, im)

# ---- Ident.tla: catalogue of modes ------------------------------------------------------
# frequencies [Hz] at fs = 100 Hz (all below 0.45 fs), damping 0.2 % .. 8 %, shapes over 8 global sensors
IDENT_FS = 100.0
MODE_F = [2.0, 5.5, 9.25, 13.0, 17.75, 22.5, 27.0, 31.5, 36.0, 41.0, 13.3]   # mode 11 sits 2.3 % above mode 4 (inside the default rtol of mpe)
MODE_XI = [0.002, 0.01, 0.03, 0.005, 0.08, 0.02, 0.004, 0.05, 0.015, 0.06, 0.012]
# shape of mode k (1-based) at sensor s (1-based); zeros are exact (they drive the Observable precondition)
MODE_COMPLEX = {3, 5, 6, 8, 10}


def mode_shape(k: int, s: int) -> complex:
    if (k + 2 * s) % 7 == 0:
        return 0j
    re = (((3 * k + 5 * s) % 13) - 6) / 4.0
    if re == 0:
        re = 0.8 + 0.1 * s      # distinct per sensor: no mode has equal components at two sensors (a constant shape makes
                                # gen.MPC return NaN - listed finding of C18 - and the MPC hard criterion then rejects it)
    im = ((((2 * k + 3 * s) % 9) - 4) / 5.0) if k in MODE_COMPLEX else 0.0
    return complex(re, im)


def mode_zero_at(k: int, nsens: int = 8):
    return {s for s in range(1, nsens + 1) if mode_shape(k, s) == 0}
