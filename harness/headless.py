# -*- coding: utf-8 -*-
"""
Head-less driving of pyoma2.support.sel_from_plot.SelFromPlot.

Tk is replaced *in the harness process only* by inert stand-ins; the dialog's own
`_initialize_gui` wires its real handlers to a matplotlib canvas, and events are delivered
through that canvas' callback registry, so the wiring (which handler gets which event, with
which `plot` argument) is the dialog's own.
"""
from __future__ import annotations

import contextlib

import numpy as np


class FakeTk:
    script = None  # class-level: what mainloop() does (set by `scripted`)
    last = None

    def __init__(self, *a, **k):
        FakeTk.last = self

    def title(self, *a):
        pass

    def config(self, **k):
        pass

    def protocol(self, *a):
        pass

    def mainloop(self):
        if FakeTk.script is not None:
            FakeTk.script()

    def quit(self):
        pass

    def destroy(self):
        pass


class FakeMenu:
    def __init__(self, *a, **k):
        pass

    def add_command(self, **k):
        pass

    def add_cascade(self, **k):
        pass


class FakeCanvasTk:
    def __init__(self, fig, root):
        self.fig = fig

    def get_tk_widget(self):
        class W:
            def pack(self, **k):
                pass

        return W()


class FakeToolbar:
    def __init__(self, *a, **k):
        pass


_installed = False


def install():
    global _installed
    import pyoma2.support.sel_from_plot as sfp

    if not _installed:
        sfp.tk.Tk = FakeTk
        sfp.tk.Menu = FakeMenu
        sfp.FigureCanvasTkAgg = FakeCanvasTk
        sfp.NavigationToolbar2Tk = FakeToolbar
        _installed = True
    return sfp


def fire(dialog, ev, scale=0.25):
    """Deliver one abstract event (Pick.tla `act`) to the dialog through its canvas."""
    from matplotlib.backend_bases import KeyEvent, MouseEvent

    cv = dialog.fig.canvas
    n = ev["name"]
    if n == "KeyPress":
        cv.callbacks.process("key_press_event", KeyEvent("key_press_event", cv, ev["key"]))
    elif n == "KeyRelease":
        cv.callbacks.process("key_release_event", KeyEvent("key_release_event", cv, ev["key"]))
    elif n == "Click":
        e = MouseEvent("button_press_event", cv, 0, 0, button=int(ev["b"]))
        e.xdata = np.float64(ev["x"] * scale)
        e.ydata = np.float64(ev["y"] * 0.25)
        e.inaxes = dialog.ax2
        cv.callbacks.process("button_press_event", e)
    else:
        raise AssertionError(ev)


def quiet_canvas(cv):
    """matplotlib's own artist-picking callback (30 ms per click on a fresh axes) is not part of the dialog"""
    for attr in ("button_pick_id", "scroll_pick_id"):
        cid = getattr(cv, attr, None)
        if cid is not None:
            cv.mpl_disconnect(cid)


def new_dialog(algo, plot, freqlim=None):
    """The state __init__ sets up, without entering the (non-existent) main loop."""
    sfp = install()
    d = object.__new__(sfp.SelFromPlot)
    d.algo = algo
    d.plot = plot
    d.fs = algo.fs
    d.freqlim = freqlim if freqlim is not None else (0.0, d.fs / 2)
    d.shift_is_held = False
    d.sel_freq = []
    if plot in ("SSI", "pLSCF"):
        d.show_legend = 0
        d.hide_poles = 1
        d.pole_ind = []
    else:
        d.freq_ind = []
    d._initialize_gui()
    quiet_canvas(d.fig.canvas)
    if plot in ("SSI", "pLSCF"):
        d.plot_stab(plot)
    else:
        d.plot_svPSD()
    return d


@contextlib.contextmanager
def scripted(events, scale=0.25, errors=None):
    """While active, every SelFromPlot(...) constructed by the library replays `events` in its main loop."""
    sfp = install()

    orig = sfp.SelFromPlot._initialize_gui
    cur = {}

    def wrapped(self):
        cur["d"] = self
        r = orig(self)
        quiet_canvas(self.fig.canvas)
        return r

    def script():
        d = cur["d"]
        for ev in events:
            try:
                fire(d, ev, scale)
            except Exception as e:  # a handler that raises leaves the GUI running
                if errors is not None:
                    errors.append(repr(e))

    sfp.SelFromPlot._initialize_gui = wrapped
    FakeTk.script = script
    try:
        yield
    finally:
        FakeTk.script = None
        sfp.SelFromPlot._initialize_gui = orig


@contextlib.contextmanager
def light_plots():
    """Replace the (expensive) diagram drawing inside the dialog by a no-op; the selection marker,
    which the dialog draws itself, stays real."""
    sfp = install()
    s, c = sfp.stab_plot, sfp.CMIF_plot
    sfp.stab_plot = lambda *a, **k: (k.get("fig"), k.get("ax"))
    sfp.CMIF_plot = lambda *a, **k: (k.get("fig"), k.get("ax"))
    try:
        yield
    finally:
        sfp.stab_plot, sfp.CMIF_plot = s, c
