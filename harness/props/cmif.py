# -*- coding: utf-8 -*-
"""Singular-value plot part of C20: Fdd.tla action DrawCMIF replayed through plot.CMIF_plot and FDD.plot_CMIF."""
from __future__ import annotations

import json

import numpy as np

from .. import core
from ..core import Raw
from .c06 import fdd_consts


def curves(ax):
    out = []
    for ln in ax.lines:
        xy = np.asarray(ln.get_xydata(), dtype=float)
        out.append(xy)
    return out


def check_case(col, t, only=None):
    import matplotlib.pyplot as plt
    from pyoma2 import algorithms as A
    from pyoma2.algorithms.data.result import FDDResult
    from pyoma2.functions import plot

    plt.tight_layout = lambda *a, **k: None
    sv, act, out = t["sv"], t["act"], t["out"]
    nl, n = len(sv), len(sv[0])
    S_val = np.zeros((n, n, nl))
    for k in range(nl):
        for i in range(n):
            S_val[i, i, k] = sv[k][i]
    freq = np.arange(nl) * 0.5
    nSv = "all" if act["n"] == 0 else int(act["n"])
    # frequency limits: none, and a window that leaves the peak of the first singular value outside (the curves and their
    # 0 dB reference do not depend on the window)
    kmax = int(np.argmax(S_val[0, 0, :]))
    lim = (freq[kmax + 1] - 0.1, freq[-1] + 0.1) if kmax + 1 < nl - 1 or kmax == 0 else (-0.1, freq[kmax - 1] + 0.1)
    for site_l in (only or ["plot.CMIF_plot", "FDD.plot_CMIF", "plot.CMIF_plot[freqlim]", "FDD.plot_CMIF[freqlim]"]):
        site = site_l.replace("[freqlim]", "")
        kwl = {"freqlim": lim} if site_l.endswith("[freqlim]") else {}
        col.count()
        try:
            if site == "plot.CMIF_plot":
                fig, ax = plot.CMIF_plot(S_val.copy(), freq.copy(), nSv=nSv, **kwl)
            else:
                alg = A.FDD(name="x", nxseg=2 * (nl - 1))
                alg._set_data(np.zeros((8, n)), fs=2 * freq[-1])
                alg.result = FDDResult(freq=freq.copy(), Sy=np.zeros((n, n, nl), dtype=complex), S_val=S_val.copy(),
                                       S_vec=np.zeros((n, n, nl), dtype=complex))
                fig, ax = alg.plot_CMIF(nSv=nSv, **kwl)
            got = curves(ax)
            plt.close("all")
        except Exception as e:
            plt.close("all")
            col.violation(f"{site_l}/raised:{type(e).__name__}", f"{site_l}(nSv={nSv}) raised {e!r} for {sv}",
                          {"cmif": True, "transition": t, "site": site_l})
            continue
        exp = [np.array([[freq[k], 10 * np.log10(c[k][0] / c[k][1])] for k in range(nl)]) for c in out["curves"]]
        bad = None
        if len(got) != len(exp):
            bad = ("curve_count", f"{len(got)} curves drawn, {len(exp)} requested")
        else:
            for i, (g, e) in enumerate(zip(got, exp)):
                if g.shape != e.shape or not np.allclose(g[:, 0], e[:, 0], rtol=0, atol=1e-12):
                    bad = ("grid", f"curve {i} is not drawn over the whole frequency grid")
                    break
                if not np.allclose(g[:, 1], e[:, 1], rtol=1e-12, atol=1e-12):
                    bad = ("level", f"curve {i}: levels {g[:, 1]} expected {e[:, 1]} dB")
                    break
        if bad:
            col.violation(f"{site_l}/{bad[0]}", f"{site_l}(nSv={nSv}, {kwl}): {bad[1]}; singular values {sv}",
                          {"cmif": True, "transition": t, "site": site_l})
    if len({tuple(s) for s in sv}) > 1:
        col.mark_nontrivial(("cmif", sv, act["n"]))
        col.sample({"singular_values": sv, "curves_requested": nSv, "expected_ratio_curves": out["curves"]}, cap=1)


def run(ctx):
    alpha = "{<<4, 2, 1>>, <<3, 3, 1>>, <<2, 1, 1>>, <<1, 1, 1>>}"
    nl = 4 if ctx.tier == "quick" else 5
    consts = fdd_consts(NL=nl, SvTables=Raw(f"[1..{nl} -> {alpha}]"), NCurves={0, 1, 2}, Focus="cmif")
    mod, cfg = ctx.model("Fdd", "cmif", consts, invariants=["CurvesExact"], action_constraints=["Emit"], view="View")
    r = ctx.tlc(mod, cfg, raw=True)
    if len(r.transitions) != r.generated - r.initial:
        raise core.MachineryFailure("emitted transition count differs from TLC's")
    import multiprocessing as mp

    chunks = list(core.chunks(r.transitions, max(1, len(r.transitions) // 32)))
    with mp.get_context("fork").Pool(16) as pool:
        for col in pool.map(_chunk, chunks):
            ctx.merge(col)


def _chunk(lines):
    col = core.Collector()
    for ln in lines:
        check_case(col, json.loads(ln))
        col.traces += 1
    return col


def replay(ctx, body):
    col = core.Collector()
    check_case(col, body["transition"], only=[body["site"]])
    for k, w, _ in col.viol:
        print(k, w)
    return col.nviol == 0
