# -*- coding: utf-8 -*-
"""
C11 - modal parameter extraction returns the requested pole, whole and only if close.

spec    : Poles.tla, action Extract (Whole, OnlyIfClose, NearestReturned, Minimal); focus "extract"
binding : direction A.  Every (table, request) pair TLC enumerates is handed to ssi.SSI_mpe and
          plscf.pLSCF_mpe and, with the tables injected as results, to SSIcov.mpe and pLSCF.mpe.
          Every returned (Fn, Xi, Phi, covariances, order_out) is mapped back to cell coordinates and
          must be an admissible answer of the specification for that request - all attributes from one
          cell, bit-identical.
"""
from __future__ import annotations

import json
import multiprocessing as mp

import numpy as np

from .. import core
from .. import poles_world as pw
from ..core import Raw

REQ = [10000, 25000, 60000]          # requested frequencies (ticks)
NEAR = [10004, 25004, 60004]         # within rtol / 10 of the request (and within 0.004 Hz)
FAR = [16000, 40000]                 # >= 10 rtol away from every request
RTOL = (1, 100)


def sym(f, stable):
    return "[f |-> %d, xi |-> 2000, sh |-> 1, cj |-> %s, cov |-> 1]" % (f, "TRUE" if stable else "FALSE")


def ex_tla(req, kind, ords, rtol=RTOL):
    return '[req |-> <<%s>>, kind |-> "%s", ords |-> <<%s>>, rtol |-> <<%d, %d>>]' % (
        ", ".join(map(str, req)), kind, ", ".join(map(str, ords)), *rtol)


def ex_sets(nreq_list, nc, lists=True, rtol=RTOL, find_min=True):
    out = []
    for n in nreq_list:
        req = REQ[:n]
        if find_min:
            out.append(ex_tla(req, "find_min", [0] * n, rtol))
        for o in range(nc):
            out.append(ex_tla(req, "int", [o] * n, rtol))
        if lists and n >= 2:
            import itertools
            for ords in itertools.product(range(nc), repeat=n):
                if len(set(ords)) > 1:
                    out.append(ex_tla(req, "list", list(ords), rtol))
    return out


def configs(tier):
    a5 = "{NaN, %s}" % ", ".join([sym(NEAR[0], True), sym(NEAR[0], False), sym(NEAR[1], True), sym(FAR[0], True)])
    a7 = "{NaN, %s}" % ", ".join([sym(NEAR[0], True), sym(NEAR[0], False), sym(NEAR[1], True), sym(NEAR[1], False),
                                   sym(FAR[0], True), sym(10003, True)])
    a4 = "{NaN, %s}" % ", ".join([sym(NEAR[0], True), sym(NEAR[1], True), sym(FAR[0], True)])
    a6 = "{NaN, %s}" % ", ".join([sym(NEAR[0], True), sym(NEAR[1], True), sym(NEAR[2], True), sym(FAR[0], True), sym(FAR[1], False)])
    # a user tolerance (5 %) different from every default in the library, with a pole 2 % off the request: close under the
    # user's tolerance, not close under 1 % (one request: 16000 is 60 % away).  Explicit orders only: the automatic order selection of SSI_mpe
    # compares with an absolute band of +- rtol Hz, an ambiguity of the statement that stays unjudged (DESIGN 7.2)
    aw = "{NaN, %s}" % ", ".join([sym(10200, True), sym(10200, False), sym(NEAR[0], True), sym(FAR[0], True)])
    wide = dict(name="t2x2wide", nr=2, nc=2, tables=f"[1..2 -> [1..2 -> {aw}]]", exs=ex_sets([1], 2, rtol=(1, 20), find_min=False))
    if tier == "quick":
        return [
            wide,
            dict(name="t2x2", nr=2, nc=2, tables=f"[1..2 -> [1..2 -> {a7}]]", exs=ex_sets([1, 2], 2)),
            dict(name="t3x2", nr=3, nc=2, tables=f"[1..3 -> [1..2 -> {a4}]]", exs=ex_sets([2], 2)),
            dict(name="t2x3", nr=2, nc=3, tables=f"[1..2 -> [1..3 -> {a4}]]", exs=ex_sets([2], 3, lists=False)),
        ]
    return [
        wide,
        dict(name="t2x2", nr=2, nc=2, tables=f"[1..2 -> [1..2 -> {a7}]]", exs=ex_sets([1, 2], 2)),
        dict(name="t3x2", nr=3, nc=2, tables=f"[1..3 -> [1..2 -> {a5}]]", exs=ex_sets([1, 2], 2)),
        dict(name="t2x3", nr=2, nc=3, tables=f"[1..2 -> [1..3 -> {a5}]]", exs=ex_sets([2], 3)),
        dict(name="t3x3", nr=3, nc=3, tables=f"[1..3 -> [1..3 -> {a4}]]", exs=ex_sets([2], 3, lists=False)),
        dict(name="t3x2r3", nr=3, nc=2, tables=f"[1..3 -> [1..2 -> {a6}]]", exs=ex_sets([3], 2)),
    ]


def judged(tab, ex):
    """the property quantifies over orders that contain at least one retained pole"""
    cols = range(len(tab[0])) if ex["kind"] == "find_min" else set(ex["ords"])
    if ex["kind"] == "find_min":
        return True
    return all(any(not pw.is_nan(tab[r][c]) for r in range(len(tab))) for c in cols)


def _earlier_extraction(alg, req, rtol):
    """history: an extraction with order 'find_min' on the same object before the judged one - mpe reads the pole tables
    of the run, it must not alter them (whether the earlier call finds a qualifying order or raises is not judged here)"""
    try:
        alg.mpe(sel_freq=list(req), order="find_min", rtol=rtol)
    except Exception:  # noqa: BLE001
        pass


def run_site(site, ct, lab, ex, unc):
    req = [f / pw.FDEN for f in ex["req"]]
    rtol = ex["rtol"][0] / ex["rtol"][1]
    order = "find_min" if ex["kind"] == "find_min" else (int(ex["ords"][0]) if ex["kind"] == "int" else [int(o) for o in ex["ords"]])
    from pyoma2 import algorithms as A
    from pyoma2.algorithms.data.result import SSIResult, pLSCFResult
    from pyoma2.functions import plscf, ssi

    cov = dict(Fn_cov=ct["Fn_cov"].copy(), Xi_cov=ct["Xi_cov"].copy(), Phi_cov=ct["Phi_cov"].copy()) if unc else {}
    if site == "ssi.SSI_mpe":
        Fn, Xi, Phi, oo, fc, xc, pc = ssi.SSI_mpe(list(req), ct["Fn"].copy(), ct["Xi"].copy(), ct["Phi"].copy(), order,
                                                   Lab=lab.copy(), rtol=rtol, **cov)
        return Fn, Xi, Phi, oo, fc, xc, pc
    if site == "plscf.pLSCF_mpe":
        Fn, Xi, Phi, oo = plscf.pLSCF_mpe(list(req), ct["Fn"].copy(), ct["Xi"].copy(), ct["Phi"].copy(), order,
                                           Lab=lab.copy(), rtol=rtol)
        return Fn, Xi, Phi, oo, None, None, None
    if site == "SSIcov.mpe":
        alg = A.SSIcov(name="x", br=2, ordmax=ct["Fn"].shape[1] - 1)
        alg._set_data(np.zeros((8, 3)), fs=200.0)
        kw = dict(Fn_poles_cov=cov["Fn_cov"], Xi_poles_cov=cov["Xi_cov"], Phi_poles_cov=cov["Phi_cov"]) if unc else {}
        alg.result = SSIResult(Fn_poles=ct["Fn"].copy(), Xi_poles=ct["Xi"].copy(), Phi_poles=ct["Phi"].copy(), Lab=lab.copy(), **kw)
        _earlier_extraction(alg, req, rtol)
        alg.mpe(sel_freq=list(req), order=order, rtol=rtol)
        r = alg.result
        return r.Fn, r.Xi, r.Phi, r.order_out, r.Fn_cov, r.Xi_cov, r.Phi_cov
    if site == "pLSCF.mpe":
        alg = A.pLSCF(name="x", ordmax=ct["Fn"].shape[1])
        alg._set_data(np.zeros((8, 3)), fs=200.0)
        alg.result = pLSCFResult(Fn_poles=ct["Fn"].copy(), Xi_poles=ct["Xi"].copy(), Phi_poles=ct["Phi"].copy(), Lab=lab.copy())
        _earlier_extraction(alg, req, rtol)
        alg.mpe(sel_freq=list(req), order=order, rtol=rtol)
        r = alg.result
        return r.Fn, r.Xi, r.Phi, r.order_out, None, None, None
    raise AssertionError(site)


SITES = ["ssi.SSI_mpe", "plscf.pLSCF_mpe", "SSIcov.mpe", "pLSCF.mpe"]


def check_case(col, cfgname, t, sites=None):
    tab = t["pre"]["tab"]
    ex = t["act"]["ex"]
    out = t["post"]["out"]
    adm = t["post"]["adm"]
    if not judged(tab, ex):
        col.bump("not_judged_empty_order")
        return
    if ex["kind"] == "find_min" and out["order"] == -1:
        col.bump("not_judged_no_qualifying_order")
        return
    ct = pw.concrete(tab)
    lab = np.array([[1 if a == 1 else 0 for a in row] for row in adm])
    cells = [set(map(tuple, s)) for s in out["cells"]]
    expected = [s for s in cells if (0, 0) not in s]
    for site in (sites or SITES):
        for unc in ((False, True) if site.startswith(("ssi.", "SSIcov")) else (False,)):
            col.count()
            try:
                Fn, Xi, Phi, oo, fc, xc, pc = run_site(site, ct, lab, ex, unc)
            except Exception as e:
                col.violation(f"{site}/{ex['kind']}/raised:{type(e).__name__}",
                              f"{site} raised {e!r} for table {tab} request {ex}",
                              {"config": cfgname, "transition": t, "site": site})
                continue
            Fn = np.atleast_1d(np.asarray(Fn, dtype=float))
            Xi = np.atleast_1d(np.asarray(Xi, dtype=float))
            Phi = np.asarray(Phi)
            bad = None
            if len(Fn) != len(expected) or len(Xi) != len(Fn):
                extra = "accepted_far_pole" if len(Fn) > len(expected) else "dropped_close_pole"
                bad = (extra, f"returned {len(Fn)} modes, specification expects {len(expected)}")
            else:
                for k, admissible in enumerate(expected):
                    hit = False
                    kinds = set()
                    for (r1, c1) in admissible:
                        r, c = r1 - 1, c1 - 1
                        okf = Fn[k] == ct["Fn"][r, c]
                        okx = Xi[k] == ct["Xi"][r, c]
                        okp = Phi.ndim == 2 and Phi.shape[1] == len(Fn) and np.array_equal(Phi[:, k], ct["Phi"][r, c, :])
                        okc = True
                        if unc:
                            okc = (fc is not None and xc is not None and pc is not None
                                   and np.atleast_1d(fc)[k] == ct["Fn_cov"][r, c] and np.atleast_1d(xc)[k] == ct["Xi_cov"][r, c]
                                   and np.ndim(pc) == 2 and np.shape(pc)[1] == len(Fn) and np.array_equal(np.asarray(pc)[:, k], ct["Phi_cov"][r, c, :]))
                        if okf and okx and okp and okc:
                            hit = True
                            break
                        kinds.add("frequency" if not okf else "damping" if not okx else "shape" if not okp else "covariance")
                    if not hit:
                        bad = ("wrong_cell:" + "+".join(sorted(kinds)), f"mode {k}: returned Fn={Fn[k]!r} Xi={Xi[k]!r} is not one of the admissible cells {sorted(admissible)}")
                        break
                if bad is None:
                    # reported order
                    if ex["kind"] == "find_min":
                        if oo is None or int(np.atleast_1d(oo)[0]) != out["order"]:
                            bad = ("order_out", f"find_min reported order {oo!r}, lowest qualifying order is {out['order']}")
                    else:
                        exp_o = [int(o) for o in ex["ords"]]
                        got_o = [int(o) for o in np.atleast_1d(oo)] if oo is not None else None
                        if got_o is None or (got_o != exp_o and got_o != exp_o[:1]):
                            bad = ("order_out", f"reported order {oo!r}, requested {exp_o}")
            if bad:
                col.violation(f"{site}/{ex['kind']}/{bad[0]}", f"{site}{' +cov' if unc else ''}: {bad[1]}; table {tab}, request {ex}",
                              {"config": cfgname, "transition": t, "site": site})
    if expected and len(expected) < len(cells) or ex["kind"] == "find_min":
        col.mark_nontrivial((cfgname, tab, ex))
        col.sample({"config": cfgname, "table": tab, "request": ex, "admissible_cells": out}, cap=1)


def _chunk(args):
    cfgname, lines = args
    col = core.Collector()
    for ln in lines:
        t = json.loads(ln)
        core.guarded(col, lambda: check_case(col, cfgname, t), "mpe", f"case {t}"[:600], {"config": cfgname, "transition": t})
        col.traces += 1
    return col


def run(ctx):
    ge, le, *_ = pw.indicator_tables()
    ctx.rule = ("every (labelled table, request) pair enumerated by TLC under focus 'extract' handed to SSI_mpe, pLSCF_mpe, "
                "SSIcov.mpe and pLSCF.mpe; non-trivial: requests of which some but not all are answerable at the given "
                "orders, and every find_min request with a qualifying order; distinct by (config, table, request)")
    ctx.trusted = ["TLC", "harness/poles_world.py", "bit equality of returned values with the injected cell"]
    ctx.assumptions = ["generated frequencies are within 0.4 rtol of a request (rtol/10 and 0.004 Hz in all configurations but 'wide') or >= 10 rtol away from all",
                       "orders without any retained pole and find_min requests without a qualifying order are not judged",
                       "'exactly one stable pole' means one frequency value (conjugate twins share it)"]
    for c in configs(ctx.tier):
        consts = {
            "NR": c["nr"], "NC": c["nc"], "Ord": list(range(c["nc"])),
            "Tables": Raw(c["tables"]),
            "FDen": pw.FDEN, "XDen": pw.XDEN, "CDen": pw.CDEN, "Shapes": pw.shapes_tla(),
            "MpcGE": ge, "MpdLE": le, "HcSets": Raw("{}"), "ScSets": Raw("{}"),
            "ExSets": Raw("{" + ", ".join(c["exs"]) + "}"), "DrawSets": Raw("{}"), "Focus": "extract",
        }
        mod, cfg = ctx.model("Poles", "ex_" + c["name"], consts,
                             invariants=["Whole", "OnlyIfClose", "NearestReturned", "Minimal"],
                             action_constraints=["Emit"], view="View")
        r = ctx.tlc(mod, cfg, raw=True)
        if len(r.transitions) != r.generated - r.initial:
            raise core.MachineryFailure("emitted transition count differs from TLC's")
        lines = r.transitions
        chunks = [(c["name"], ch) for ch in core.chunks(lines, max(1, len(lines) // 64))]
        with mp.get_context("fork").Pool(16) as pool:
            for col in pool.map(_chunk, chunks):
                ctx.merge(col)
    ctx.exhaustive = True


def replay(ctx, body):
    col = core.Collector()
    check_case(col, body["config"], body["transition"], sites=[body["site"]] if body.get("site") else None)
    for k, w, _ in col.viol:
        print(k, w)
    return col.nviol == 0
