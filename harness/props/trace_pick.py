# -*- coding: utf-8 -*-
"""
Conformance direction B for Pick.tla: seeded random event sequences (longer than the exhaustive bound, on larger pole
tables) are delivered to a real head-less dialog while its handlers are wrapped from the outside; the recorded trace
(event + arguments + projected selection and modifier after every handler call) is validated by TLC against
TracePick.tla.
"""
from __future__ import annotations

import json
import multiprocessing as mp
import re

import numpy as np

from .. import core, headless
from ..core import Raw, tla
from . import c16

Q = c16.Q


def big_table(rng, variant):
    if variant == "FDD":
        return [[4 * k] for k in range(0, 17)]
    nr, nc = 5, 6
    F = [[c16.NAN] * nc for _ in range(nr)]
    base = [40, 82, 121, 160, 163]
    for c in range(1 if variant == "SSI" else 0, nc):
        for r in range(nr):
            if rng.random() < 0.7:
                F[r][c] = base[r] + int(rng.integers(-1, 2))
    return F


def record(seed, variant, length):
    rng = np.random.default_rng(seed)
    F = big_table(rng, variant)
    t = dict(name=f"trace_{variant}_{seed}", variant=variant, F=F)
    d = headless.new_dialog(c16.make_algo(t), variant)
    events = []
    xs = sorted({v for row in F for v in row if v != c16.NAN} | {1, 60, 101, 141, 200})
    ncols = len(F[0])
    for _ in range(length):
        k = rng.random()
        if k < 0.18:
            ev = {"name": "KeyPress", "key": str(rng.choice(["shift", "a"]))}
        elif k < 0.26:
            ev = {"name": "KeyRelease", "key": str(rng.choice(["shift", "a"]))}
        else:
            ev = {"name": "Click", "b": int(rng.choice([1, 1, 1, 2, 3])), "x": int(rng.choice(xs)) + int(rng.integers(-2, 3)),
                  "y": int(rng.integers(0, 4 * ncols)) if variant != "FDD" else 0}
        try:
            headless.fire(d, ev, Q)
        except Exception:
            pass
        pairs, mk, shift, lists_ok = c16.project(d, variant)
        rec = {"ev": ev["name"], "sel": sorted(pairs, key=lambda p: p[0] * 1000 + p[1]), "shift": shift, "marker_ok": sorted(mk) == sorted(pairs),
               "lists_ok": lists_ok}
        rec.update({k2: v for k2, v in ev.items() if k2 != "name"})
        events.append(rec)
    return {"variant": variant, "F": F, "events": events}


def validate_one(args):
    idx, tr, scratch = args
    evs = tr["events"]
    F = tr["F"]
    for i, e in enumerate(evs):
        if not e["marker_ok"] or not e["lists_ok"] or any(not isinstance(p[0], int) for p in e["sel"]):
            return {"idx": idx, "accepted": False, "reached": i, "n": len(evs), "why": {"unexplained_event": e, "note": "marker / parallel lists disagree "
                    "with the selection, or a selected frequency is not a table value"}}

    def ev_tla(e):
        d = {"ev": e["ev"], "shift": bool(e["shift"]),
             "sel": Raw("<<" + ", ".join("<<%d, %d>>" % (p[0], p[1]) for p in e["sel"]) + ">>")}
        for k in ("key", "b", "x", "y"):
            if k in e:
                d[k] = e[k]
        return tla(d)

    xs = {e["x"] for e in evs if "x" in e} or {0}
    ys = {e["y"] for e in evs if "y" in e} or {0}
    consts = {
        "F": Raw("<<" + ", ".join("<<" + ", ".join(str(v) for v in row) + ">>" for row in F) + ">>"),
        "NR": len(F), "NC": len(F[0]), "Xs": xs, "Ys": ys, "Keys": {"shift", "a"}, "InitShift": False, "MaxLen": len(evs) + 1,
        "Trace": Raw("<<" + ",\n  ".join(ev_tla(e) for e in evs) + ">>"),
    }
    mod, cfg = core.make_model(scratch, "TracePick", f"ptrace{idx}", consts, init="TInit", next_="TNext", constraints=["Reach"], view="TView")
    try:
        r = core.run_tlc(mod, cfg, scratch=scratch, workers=1, parse_transitions=False, heap="1g", timeout=300)
    except core.MachineryFailure as e:
        return {"idx": idx, "machinery": str(e)[:1500]}
    reached, last = 0, None
    for ln in r.prints:
        m = re.match(r'<<"REACH", (\d+), (".*")>>$', ln)
        if m and int(m.group(1)) >= reached:
            reached = int(m.group(1))
            last = json.loads(json.loads(m.group(2)))
    ok = reached == len(evs) + 1
    out = {"idx": idx, "accepted": ok, "reached": reached - 1, "n": len(evs)}
    if not ok:
        out["why"] = {"last_abstract_state": last, "unexplained_event": evs[reached - 1]}
    return out


def _rec(args):
    with headless.light_plots():
        return record(*args)


def run(ctx):
    headless.install()
    n = 30 if ctx.tier == "quick" else 300
    jobs = [(ctx.seed * 50 + i, ["SSI", "pLSCF", "FDD"][i % 3], 10 if ctx.tier == "quick" else 14) for i in range(n)]
    with mp.get_context("fork").Pool(16) as pool:
        traces = pool.map(_rec, jobs)
        res = pool.map(validate_one, [(i, t, ctx.scratch) for i, t in enumerate(traces)])
    ok = 0
    for r, t in zip(res, traces):
        if "machinery" in r:
            raise core.MachineryFailure("trace validation (picker): " + r["machinery"])
        ctx.count()
        if r["accepted"]:
            ok += 1
            ctx.traces += 1
            ctx.mark_nontrivial(("ptrace", json.dumps(t["events"])))
            ctx.sample({"recorded_dialog_trace": t["variant"], "events": [{k: e.get(k) for k in ("ev", "key", "b", "x", "y")} for e in t["events"]],
                        "final_selection": t["events"][-1]["sel"]}, cap=6)
        else:
            ev = r["why"]["unexplained_event"]
            kind = "Click%d" % ev["b"] if ev["ev"] == "Click" else ev["ev"]
            ctx.violation(f"trace/{t['variant']}/{kind}", f"recorded dialog run ({t['variant']}) is not a behaviour of Pick.tla: {r['reached']} of {r['n']} "
                          f"events explained; {json.dumps(r['why'])[:900]}", {"ptrace": True, "trace_json": t, "verdict": r})
    ctx.extra["dialog_traces_validated"] = len(traces)
    ctx.extra["dialog_traces_accepted"] = ok
