# -*- coding: utf-8 -*-
"""
C18 - mode-shape indicators are bounded, scale-invariant and exact on collinear shapes.

spec    : Indicators.tla - MacBounded, MacSymmetric, MacScaleInvariant, MacCollinearIsOne, MacSelfIsOne on every
          enumerated pair / single shape / collinear seed of Gaussian-integer vectors; the exact rational MAC and the
          relation "unchanged under Scale(c)" are the predictions
binding : direction A against gen.MAC, MPC, MPD, MCF, MSF: exact MAC (1e-12), bounds (with a 1e-12 rounding
          allowance), invariance under the Gaussian scale of the case and under the catalogue of further factors
          (1e-6, 1e6, (3-i)1e3, -i ...), constants 1, 1, 0, 0 and finiteness on collinear seeds, MSF(v, c v) = c,
          shape / transposition of the MAC matrix for sets of shapes.
"""
from __future__ import annotations

import json
import math
import multiprocessing as mp

import numpy as np

from .. import core
from ..core import Raw

SCALE_IDS = {1: 1e-6, 2: 1e6, 3: (3 - 1j) * 1e3, 4: -1j, 5: 0.37 + 0.2j, 6: -1.0}
REAL_C = [2.0, -0.5, 1e-6, -1e6, 3.0, 1.0 / 3.0]
TOL = 1e-9


def cvec(v):
    return np.array([complex(a, b) for a, b in v])


def configs(tier):
    box = "{<<0, 0>>, <<1, 0>>, <<-2, 1>>, <<0, 2>>, <<3, -1>>}"
    box_big = "{<<0, 0>>, <<1, 0>>, <<-2, 1>>, <<0, 2>>, <<3, -1>>, <<1, 1>>, <<-1, -3>>}"
    gs = "{<<1, 0>>, <<-1, 0>>, <<0, 1>>, <<1, 2>>, <<3, -1>>}"
    seeds = "{<<1, 2>>, <<1, 1>>, <<2, -1, 3>>, <<0, 1, 2>>, <<1, 1, 1>>, <<5, 0, 0, -2>>, <<1, -1, 1, -1>>}"
    base = dict(Comps=Raw(box), Dims={2, 3}, RealSeeds=Raw(seeds), GScales=Raw(gs), ScaleIds=set(SCALE_IDS))
    out = [
        dict(base, Focus="pair", Dims={2}, name="pair2"),
        dict(base, Focus="single", Dims={2, 3}, name="single"),
        dict(base, Focus="collinear", name="collinear"),
    ]
    if tier == "thorough":
        out = [
            dict(base, Focus="pair", Dims={2}, Comps=Raw(box_big), name="pair2"),
            dict(base, Focus="pair", Dims={3}, name="pair3", GScales=Raw("{<<1, 2>>, <<0, 1>>}")),
            dict(base, Focus="single", Dims={2, 3, 4}, name="single"),
            dict(base, Focus="collinear", name="collinear"),
        ]
    return out


def finite(v):
    try:
        return bool(np.all(np.isfinite(v)))
    except Exception:
        return False


def check_case(col, cfgname, t, rng):
    from pyoma2.functions import gen

    x, y, c, out = cvec(t["x"]), cvec(t["y"]), complex(*t["c"]), t["out"]
    rep = {"config": cfgname, "transition": t}

    def viol(key, msg):
        col.violation(key, f"{msg}; x={t['x']} y={t['y']} c={t['c']}", rep)

    col.count()
    # ---- MAC: exact value, bounds, symmetry, shape
    m = float(gen.MAC(x, y))
    exact = out["mac"][0] / out["mac"][1]
    if not finite(m) or abs(m - exact) > 1e-12:
        viol("gen.MAC/value", f"MAC = {m!r}, exact {out['mac'][0]}/{out['mac'][1]}")
    if not (-1e-12 <= m <= 1 + 1e-12):
        viol("gen.MAC/bounds", f"MAC = {m!r} outside [0, 1]")
    if abs(float(gen.MAC(y, x)) - m) > 1e-12:
        viol("gen.MAC/symmetry", "MAC(y, x) != MAC(x, y)")
    X = np.column_stack([x, y, x + 2j * y])
    A = np.column_stack([y, 1j * x])
    MXA, MAX = np.asarray(gen.MAC(X, A)), np.asarray(gen.MAC(A, X))
    if MXA.shape != (3, 2) or MAX.shape != (2, 3):
        viol("gen.MAC/matrix_shape", f"MAC of 3 and 2 shapes has shape {MXA.shape}, transposed call {MAX.shape}")
    elif not np.allclose(MXA, MAX.T, rtol=0, atol=1e-12) or abs(MXA[0, 0] - exact) > 1e-12 or abs(MXA[1, 1] - exact) > 1e-12:
        viol("gen.MAC/matrix_layout", "MAC matrix is not one row per shape of the first set / not symmetric under transposition")
    # ---- invariance under scaling, bounds
    factors = [c] + [SCALE_IDS[i] for i in out["scale_ids"]]
    for name, f, lo, hi in (("MPC", gen.MPC, 0.0, 1.0), ("MPD", gen.MPD, 0.0, math.pi / 2), ("MCF", gen.MCF, 0.0, 1.0)):
        try:
            v0 = np.atleast_1d(np.real_if_close(f(x)))[0]
        except Exception as e:
            viol(f"gen.{name}/raised", f"{name} raised {e!r}")
            continue
        v0 = float(np.real(v0))
        degenerate = False
        if not finite(v0):
            # not finite: allowed only where the property is silent (it demands finiteness for collinear shapes only)
            if out["collinear"]:
                const = len({tuple(p) for p in t["y"]}) == 1
                viol(f"gen.{name}/collinear_not_finite" + ("/constant_vector" if const else ""),
                     f"{name} = {v0!r} for a complex multiple of the real vector {t['y']}")
            else:
                col.bump(f"{name}_not_finite_non_collinear")
            degenerate = True
        elif not (lo - 1e-12 <= v0 <= hi + 1e-12):
            viol(f"gen.{name}/bounds", f"{name} = {v0!r} outside [{lo}, {hi}]")
        if not degenerate:
            for s in factors:
                v1 = float(np.real(np.atleast_1d(f(s * x))[0]))
                # MPD is an arccos: near 0 its conditioning is sqrt(eps), hence the wider tolerance
                if not finite(v1) or abs(v1 - v0) > (1e-6 if name == "MPD" else TOL):
                    viol(f"gen.{name}/scale_invariance", f"{name}({s} * x) = {v1!r}, {name}(x) = {v0!r}")
                    break
        if out["collinear"] and not degenerate:
            target = {"MPC": 1.0, "MPD": 0.0, "MCF": 0.0}[name]
            # MPD is an arccos of a cosine within rounding of 1: allow sqrt(eps)-sized angles
            tol = 1e-6 if name == "MPD" else 1e-9
            if abs(v0 - target) > tol:
                viol(f"gen.{name}/collinear_value", f"{name} = {v0!r} for a complex multiple of a real vector (expected {target})")
    # the same relations on a shape with a wide dynamic range (normalised to a unit component, the others 1e-2 .. 1e-5):
    # after scaling by 1e-6 its small components are far below any absolute tolerance
    dyn = x * np.array([10.0 ** (-2.0 * k if k < 2 else -5.0) for k in range(len(x))])
    if np.count_nonzero(dyn) >= 2:
        dyn = dyn / dyn[np.argmax(np.abs(dyn))]
        for name, f in (("MPC", gen.MPC), ("MPD", gen.MPD), ("MCF", gen.MCF)):
            try:
                d0 = float(np.real(np.atleast_1d(f(dyn))[0]))
            except Exception as e:
                viol(f"gen.{name}/raised", f"{name} raised {e!r} on a unit-normalised shape with small components")
                continue
            if not finite(d0):
                col.bump(f"{name}_not_finite_non_collinear")
                continue
            for s in factors:
                d1 = float(np.real(np.atleast_1d(f(s * dyn))[0]))
                if not finite(d1) or abs(d1 - d0) > (1e-6 if name == "MPD" else TOL):
                    viol(f"gen.{name}/scale_invariance/wide_dynamic_range", f"{name}({s} * x) = {d1!r}, {name}(x) = {d0!r} for x = {dyn}")
                    break
    for s in factors:
        ms = float(gen.MAC(s * x, y))
        if not finite(ms) or abs(ms - m) > TOL:
            viol("gen.MAC/scale_invariance", f"MAC({s} * x, y) = {ms!r}, MAC(x, y) = {m!r}")
            break
    # ---- MSF on collinear pairs
    if out["collinear"]:
        v = np.real(y)
        for cr in REAL_C:
            r = np.atleast_1d(gen.MSF(v.astype(complex), (cr * v).astype(complex)))[0]
            if not finite(r) or abs(r - cr) > 1e-9 * abs(cr):
                viol("gen.MSF/value", f"MSF(v, {cr} v) = {r!r}")
                break
        mc = float(gen.MAC(x, np.real(y).astype(complex)))
        if abs(mc - 1) > 1e-12:
            viol("gen.MAC/collinear_value", f"MAC of c*v with v = {mc!r}")
    if 0 < exact < 1 or out["collinear"]:
        col.mark_nontrivial((cfgname, t["x"], t["y"], t["c"]))
        col.sample({"config": cfgname, "x": t["x"], "y": t["y"], "scale": t["c"], "exact_mac": out["mac"]}, cap=1)


def _chunk(args):
    cfgname, seed, lines = args
    col = core.Collector()
    rng = np.random.default_rng(seed)
    for ln in lines:
        t = json.loads(ln)
        core.guarded(col, lambda: check_case(col, cfgname, t, rng), "indicators", f"case {t}"[:600], {"config": cfgname, "transition": t})
        col.traces += 1
    return col


def big_shapes(ctx):
    """8..64 components (sampled): the same relations on larger shapes built from the same catalogue of factors."""
    from pyoma2.functions import gen

    col = core.Collector()
    rng = np.random.default_rng(ctx.seed)
    n_cases = 60 if ctx.tier == "quick" else 600
    for k in range(n_cases):
        n = int(rng.choice([8, 16, 33, 64]))
        x = (rng.integers(-5, 6, n) + 1j * rng.integers(-5, 6, n)).astype(complex)
        if rng.random() < 0.3:
            x[rng.integers(0, n, 3)] = 0           # zero components
        if rng.random() < 0.3:
            x = x / x[np.argmax(np.abs(x))]        # already normalised to a unit component
        if not np.any(x):
            continue
        col.count()
        rep = {"big": True, "seed": ctx.seed, "case": k}
        for name, f, hi in (("MPC", gen.MPC, 1.0), ("MPD", gen.MPD, math.pi / 2), ("MCF", gen.MCF, 1.0)):
            r0 = np.atleast_1d(f(x))
            if r0.size == 0:
                col.violation(f"gen.{name}/empty_result", f"{name} of a {n}-component shape returned an empty result", rep)
                continue
            v0 = float(np.real(r0[0]))
            if not finite(v0):
                col.bump(f"{name}_not_finite_non_collinear")
                continue
            if not (-1e-12 <= v0 <= hi + 1e-12):
                col.violation(f"gen.{name}/bounds", f"{name} = {v0!r} on a {n}-component shape", rep)
            for s in SCALE_IDS.values():
                v1 = float(np.real(np.atleast_1d(f(s * x))[0]))
                if not finite(v1) or abs(v1 - v0) > (1e-6 if name == "MPD" else TOL):
                    col.violation(f"gen.{name}/scale_invariance", f"{name}({s} x) = {v1!r} vs {v0!r} on a {n}-component shape", rep)
                    break
        # collinear large shapes
        v = rng.integers(-4, 5, n).astype(float)
        if np.any(v):
            cx = complex(rng.normal(), rng.normal()) * 10.0 ** rng.integers(-6, 7)
            z = cx * v
            for name, f, target, tol in (("MPC", gen.MPC, 1.0, 1e-9), ("MPD", gen.MPD, 0.0, 1e-6), ("MCF", gen.MCF, 0.0, 1e-9)):
                if name == "MPC" and np.ptp(v) == 0:
                    pass
                val = float(np.real(np.atleast_1d(f(z))[0]))
                if not finite(val):
                    col.violation(f"gen.{name}/collinear_not_finite" + ("/constant_vector" if np.ptp(v) == 0 else ""), f"{name} = {val!r} for c*v, v real with {n} components (zeros: {int((v == 0).sum())})", rep)
                elif abs(val - target) > tol:
                    col.violation(f"gen.{name}/collinear_value", f"{name} = {val!r} for c*v, expected {target}", rep)
            mm = float(gen.MAC(z, v.astype(complex)))
            if abs(mm - 1) > 1e-9:
                col.violation("gen.MAC/collinear_value", f"MAC(c v, v) = {mm!r}", rep)
        col.mark_nontrivial(("big", k))
    col.traces = n_cases
    ctx.merge(col)


def run(ctx):
    ctx.rule = ("every pair / single shape / collinear seed of Gaussian-integer vectors enumerated by Indicators.tla, each crossed "
                "with a Gaussian scale factor and the catalogue of further factors; larger shapes (8..64 components) sampled. "
                "Non-trivial: pairs with 0 < MAC < 1 and all collinear seeds; distinct by (config, x, y, c)")
    ctx.trusted = ["TLC (exact rational MAC, Gaussian-integer scaling)", "numpy float comparison with stated tolerances"]
    ctx.assumptions = ["non-finite MPC / MPD on non-collinear shapes (e.g. zero components) are counted, not judged: the "
                       "property demands finiteness for collinear shapes only",
                       "MPD on collinear shapes is the arccos of a cosine within rounding of 1: angles up to 1e-6 are accepted"]
    for c in configs(ctx.tier):
        name = c.pop("name")
        mod, cfg = ctx.model("Indicators", name, c,
                             invariants=["MacBounded", "MacSymmetric", "MacScaleInvariant", "MacCollinearIsOne", "MacSelfIsOne"],
                             action_constraints=["Emit"], view="View")
        r = ctx.tlc(mod, cfg, raw=True)
        if len(r.transitions) != r.generated - r.initial:
            raise core.MachineryFailure("emitted transition count differs from TLC's")
        chunks = [(name, ctx.seed + n, ch) for n, ch in enumerate(core.chunks(r.transitions, max(1, len(r.transitions) // 48)))]
        with mp.get_context("fork").Pool(16) as pool:
            for col in pool.map(_chunk, chunks):
                ctx.merge(col)
    big_shapes(ctx)
    ctx.exhaustive = True


def replay(ctx, body):
    col = core.Collector()
    if body.get("big"):
        big_shapes(ctx)
        return ctx.violations == 0
    check_case(col, body["config"], body["transition"], np.random.default_rng(0))
    for k, w, _ in col.viol:
        print(k, w)
    return col.nviol == 0
