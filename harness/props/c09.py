# -*- coding: utf-8 -*-
"""
C09 - hard validation criteria are enforced soundly, completely and consistently.

spec    : Poles.tla, action HardCriteria (Sound, Complete, ValuesUnchanged); focus "hc"
binding : direction A on the unit that owns the masking - the `run()` method of the six pole-producing
          classes.  Every (table, criteria) pair TLC enumerates is injected as the *unfiltered* solution
          (the functions that produce poles are patched in the harness process; a pole whose conjugate is
          present gets a real conjugate twin row), the real run() is executed with those criteria, and the
          NaN pattern of every stored table must be exactly the specification's post-state, retained values
          bit-identical.
"""
from __future__ import annotations

import json
import multiprocessing as mp

import numpy as np

from .. import core
from .. import poles_world as pw
from ..core import Raw

XIMAX = {1: (1, 10), 2: (1, 1)}
COVMAX = (2, 10)


def hc_tla(conj, ximax, mpc, mpd, unc):
    return "[conj |-> %s, ximax |-> <<%d, %d>>, mpc |-> %d, mpd |-> %d, unc |-> %s, covmax |-> <<%d, %d>>]" % (
        "TRUE" if conj else "FALSE", *XIMAX[ximax], mpc, mpd, "TRUE" if unc else "FALSE", *COVMAX)


def hc_sets(full):
    lims = [(1, 1), (2, 1), (1, 2), (2, 3), (3, 2)]
    out = []
    for conj in (True, False):
        for xm in (1, 2):
            for mpc, mpd in (lims if full else [(1, 1), (2, 3), (3, 2)]):
                for unc in (False, True):
                    out.append(hc_tla(conj, xm, mpc, mpd, unc))
    return out


SYM = {
    "A": "[f |-> 12000, xi |-> 2000, sh |-> 1, cj |-> TRUE, cov |-> 1]",     # passes everything
    "B": "[f |-> 12500, xi |-> 2000, sh |-> 1, cj |-> FALSE, cov |-> 1]",    # conjugate missing
    "C": "[f |-> 13000, xi |-> 20000, sh |-> 1, cj |-> TRUE, cov |-> 1]",    # damping 0.2
    "D": "[f |-> 13500, xi |-> 2000, sh |-> 5, cj |-> TRUE, cov |-> 1]",     # strongly complex shape
    "E": "[f |-> 14000, xi |-> 2000, sh |-> 1, cj |-> TRUE, cov |-> 500]",   # covariance 0.5
    "G": "[f |-> 14500, xi |-> -500, sh |-> 1, cj |-> TRUE, cov |-> 1]",     # negative damping
    "H": "[f |-> 15000, xi |-> 2000, sh |-> 2, cj |-> TRUE, cov |-> 1]",     # MPC ok, MPD 0.072
    "I": "[f |-> 15500, xi |-> 2000, sh |-> 4, cj |-> TRUE, cov |-> 1]",     # MPC 0.82, MPD 0.46
}
FULL = ("{[f |-> 11000 + 100 * s, xi |-> x, sh |-> s, cj |-> j, cov |-> v] : "
        "x \\in {-500, 2000, 20000}, s \\in {1, 2, 4, 5}, j \\in BOOLEAN, v \\in {1, 500}}")


def configs(tier):
    small = "{NaN, " + ", ".join(SYM[k] for k in ("A", "B", "C", "D", "E", "G")) + "}"
    mid = "{NaN, " + ", ".join(SYM[k] for k in SYM) + "}"
    out = [
        dict(name="t2x2", nr=2, nc=2, tables=f"[1..2 -> [1..2 -> {small}]]", hcs=hc_sets(False)),
        dict(name="full1x1", nr=1, nc=1, tables=f"[1..1 -> [1..1 -> {FULL}]]", hcs=hc_sets(True)),
    ]
    if tier == "thorough":
        out.append(dict(name="t3x1", nr=3, nc=1, tables=f"[1..3 -> [1..1 -> {mid}]]", hcs=hc_sets(True)))
        out.append(dict(name="t1x3", nr=1, nc=3, tables=f"[1..1 -> [1..3 -> {mid}]]", hcs=hc_sets(True)))
        out.append(dict(name="t2x2m", nr=2, nc=2, tables=f"[1..2 -> [1..2 -> {mid}]]", hcs=hc_sets(False)[:6]))
    return out


def hc_dict(hc):
    return dict(conj=bool(hc["conj"]), xi_max=hc["ximax"][0] / hc["ximax"][1], mpc_lim=pw.MPC_LIMS[hc["mpc"] - 1],
                mpd_lim=pw.MPD_LIMS[hc["mpd"] - 1], cov_max=hc["covmax"][0] / hc["covmax"][1])


def expected_mask(raw, post):
    """twin-expanded boolean 'retained' mask"""
    nr, nc = len(raw), len(raw[0])
    m = np.zeros((2 * nr, nc), dtype=bool)
    for r in range(nr):
        for c in range(nc):
            if not pw.is_nan(post[r][c]):
                m[2 * r, c] = True
                if raw[r][c]["cj"]:
                    m[2 * r + 1, c] = True
    return m


def clause_of(raw, post, hc, r, c, kept):
    """name the criterion a wrongly kept / wrongly rejected pole is about (for the violation key)"""
    p = raw[r // 2][c]
    if pw.is_nan(p):
        return "nan"
    why = []
    if hc["conj"] and not p["cj"]:
        why.append("conj")
    if not (0 < p["xi"] / pw.XDEN < hc["ximax"][0] / hc["ximax"][1]):
        why.append("damping")
    ge, le, *_ = pw.indicator_tables()
    if not ge[p["sh"] - 1][hc["mpc"] - 1]:
        why.append("mpc")
    if not le[p["sh"] - 1][hc["mpd"] - 1]:
        why.append("mpd")
    if hc["unc"] and not (p["cov"] / pw.CDEN < hc["covmax"][0] / hc["covmax"][1]):
        why.append("cov")
    return "+".join(why) if why else "passes_all"


def check_case(col, cfgname, t, classes=None):
    raw = t["pre"]["tab"]
    post = t["post"]["tab"]
    hc = t["act"]["hc"]
    nc = len(raw[0])
    ct = pw.concrete(raw, twins=True)
    exp = expected_mask(raw, post)
    rejected_and_kept = exp.any() and (np.isfinite(ct["Fn"]) & ~exp).any()
    for cls in (classes or pw.POLE_CLASSES):
        unc = bool(hc["unc"])
        if unc and cls != "SSIcov":
            continue
        alg = _run(cls, ct, nc, hc, unc)
        res = alg.result
        tabs = {"Fn_poles": (res.Fn_poles, ct["Fn"]), "Xi_poles": (res.Xi_poles, ct["Xi"]),
                "Phi_poles": (res.Phi_poles, ct["Phi"])}
        if hasattr(res, "Lambds"):
            tabs["Lambds"] = (res.Lambds, ct["Lam"])
        if unc:
            tabs["Fn_poles_cov"] = (res.Fn_poles_cov, ct["Fn_cov"])
            tabs["Xi_poles_cov"] = (res.Xi_poles_cov, ct["Xi_cov"])
        col.count()
        for name, (got, inj) in tabs.items():
            got = np.asarray(got)
            fin = ~np.isnan(got) if got.ndim == 2 else ~np.isnan(got).all(axis=2)
            if fin.shape != exp.shape:
                col.violation(f"{cls}.run/shape/{name}", f"{cls}: table {name} has shape {got.shape}",
                              {"config": cfgname, "transition": t, "cls": cls})
                continue
            if not np.array_equal(fin, exp):
                rr, cc = np.argwhere(fin != exp)[0]
                kind = "kept" if fin[rr, cc] else "dropped"
                crit = clause_of(raw, post, hc, rr, cc, fin[rr, cc])
                col.violation(f"{cls}.run/{kind}/{crit}/{name}",
                              f"{cls}.run with {hc_dict(hc)}{' +unc' if unc else ''}: table {name} {kind} pole slot "
                              f"(row {rr}, col {cc}) = {raw[rr // 2][cc]} [{crit}]",
                              {"config": cfgname, "transition": t, "cls": cls})
            else:
                a, b = got[fin], np.asarray(inj)[fin]
                if not np.array_equal(a, b):
                    col.violation(f"{cls}.run/values_changed/{name}", f"{cls}.run: retained values of {name} differ from the unfiltered solution",
                                  {"config": cfgname, "transition": t, "cls": cls})
    if rejected_and_kept:
        col.mark_nontrivial((cfgname, raw, hc))
        col.sample({"config": cfgname, "unfiltered": raw, "criteria": hc, "expected_after": post}, cap=1)


def _run(cls, ct, nc, hc, unc):
    # SSI tables have ordmax + 1 columns, pLSCF tables ordmax columns: the injected table fixes the width
    return pw.run_class(cls, ct, ncols=nc, hc=hc_dict(hc), unc=unc)


def _chunk(args):
    cfgname, lines = args
    col = core.Collector()
    for ln in lines:
        t = json.loads(ln)
        core.guarded(col, lambda: check_case(col, cfgname, t), "run", f"case {t}"[:600], {"config": cfgname, "transition": t})
        col.traces += 1
    return col


def run(ctx):
    ge, le, mpc, mpd, margin = pw.indicator_tables()
    ctx.rule = ("every (unfiltered table, criteria) pair enumerated by TLC under focus 'hc' injected into the real run() of "
                "SSIdat, SSIcov, SSIdat_MS, SSIcov_MS, pLSCF, pLSCF_MS; non-trivial: cases in which the criteria reject "
                "at least one pole and retain at least one; distinct by (config, table, criteria)")
    ctx.trusted = ["TLC", "harness/poles_world.py (catalogue -> numpy tables with conjugate twins, injection)",
                   "gen.MPC / gen.MPD as classifiers of the catalogue shapes (margin >= 0.02 to every limit)"]
    ctx.assumptions = ["'conjugate present' is judged within one model order (cross-order coincidences are not generated)",
                       "covariance criterion only where the library computes uncertainties (SSIcov, calc_unc=True)"]
    for c in configs(ctx.tier):
        consts = {
            "NR": c["nr"], "NC": c["nc"], "Ord": list(range(c["nc"])),
            "Tables": Raw(c["tables"]),
            "FDen": pw.FDEN, "XDen": pw.XDEN, "CDen": pw.CDEN, "Shapes": pw.shapes_tla(),
            "MpcGE": ge, "MpdLE": le, "HcSets": Raw("{" + ", ".join(c["hcs"]) + "}"),
            "ScSets": Raw("{}"), "ExSets": Raw("{}"), "DrawSets": Raw("{}"), "Focus": "hc",
        }
        mod, cfg = ctx.model("Poles", "hc_" + c["name"], consts,
                             invariants=["Sound", "Complete", "ValuesUnchanged"],
                             action_constraints=["Emit"], view="View")
        r = ctx.tlc(mod, cfg, raw=True)
        if len(r.transitions) != r.generated - r.initial:
            raise core.MachineryFailure("emitted transition count differs from TLC's")
        lines = r.transitions
        chunks = [(c["name"], ch) for ch in core.chunks(lines, max(1, len(lines) // 64))]
        with mp.get_context("fork").Pool(16) as pool:
            for col in pool.map(_chunk, chunks):
                ctx.merge(col)
    ctx.exhaustive = True
    ctx.extra["indicator_margin"] = margin
    ctx.extra["catalogue_mpc"] = mpc
    ctx.extra["catalogue_mpd"] = mpd


def replay(ctx, body):
    col = core.Collector()
    check_case(col, body["config"], body["transition"], classes=[body["cls"]] if body.get("cls") else None)
    for k, w, _ in col.viol:
        print(k, w)
    return col.nviol == 0
