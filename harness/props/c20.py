# -*- coding: utf-8 -*-
"""
C20 - diagrams show exactly the identified poles at their frequency, order and damping.

spec    : Poles.tla, action Draw (MarkersExact), focus "draw";  Fdd.tla, action DrawCMIF (CurvesExact)
binding : direction A on the Agg backend.  Every (table, labels, hide) case TLC enumerates is drawn by
          plot.stab_plot / plot.cluster_plot and by the plot methods of SSIcov and pLSCF (result tables
          injected); the marker artists of the returned axes are projected onto multisets of coordinates
          and compared with the specification's marker sets.  Singular-value plots: see cmif part.
"""
from __future__ import annotations

import json
import multiprocessing as mp

import numpy as np

from .. import core
from .. import poles_world as pw
from ..core import Raw


def sym(f, stable):
    return "[f |-> %d, xi |-> %d, sh |-> 1, cj |-> %s, cov |-> %d]" % (f, 2000 if stable else 3000, "TRUE" if stable else "FALSE",
                                                                      100 if stable else 800)


ALPHA = "{NaN, %s}" % ", ".join([sym(12000, True), sym(12000, False), sym(31000, True), sym(31000, False)])


def configs(tier):
    if tier == "quick":
        return [dict(name="d2x2", nr=2, nc=2), dict(name="d1x4", nr=1, nc=4)]
    return [dict(name="d2x3", nr=2, nc=3), dict(name="d1x5", nr=1, nc=5), dict(name="d3x2", nr=3, nc=2)]


def markers(ax):
    """(stable markers, unstable markers) as sorted lists of (x, y), NaN rows dropped."""
    from matplotlib.collections import PathCollection

    st, un = [], []
    for ln in ax.lines:
        if ln.get_marker() == "o":
            xy = np.asarray(ln.get_xydata(), dtype=float)
            st += [tuple(p) for p in xy if np.isfinite(p).all()]
    for co in ax.collections:
        if isinstance(co, PathCollection):
            xy = np.ma.filled(np.ma.asarray(co.get_offsets(), dtype=float), np.nan)
            un += [tuple(p) for p in xy if np.isfinite(p).all()]
    return sorted(st), sorted(un)


def sites():
    return ["plot.stab_plot", "plot.cluster_plot", "SSIcov.plot_stab", "SSIcov.plot_cluster", "pLSCF.plot_stab",
            "pLSCF.plot_cluster", "plot.stab_plot+cov", "SSIcov.plot_stab+cov"]


FLIMS = {0: None, 1: (5.0, 20.0), 2: (25.0, 40.0)}      # catalogue frequencies are 12 Hz and 31 Hz


def draw(site, ct, lab, hide, flim=None):
    import matplotlib.pyplot as plt
    from pyoma2 import algorithms as A
    from pyoma2.algorithms.data.result import SSIResult, pLSCFResult
    from pyoma2.functions import plot

    plt.tight_layout = lambda *a, **k: None   # layout of labels is not part of the property (and costs 20 ms)
    nc = ct["Fn"].shape[1]
    cov = site.endswith("+cov")
    base = site.replace("+cov", "")
    # history: the judged diagram is drawn after an earlier diagram (other hide flag) of the same tables / the same object -
    # drawing is an observer, what it leaves behind must not show in the next diagram
    if base == "plot.stab_plot":
        Fn, L, Fc = ct["Fn"].copy(), lab.copy(), (ct["Fn_cov"].copy() if cov else None)
        plot.stab_plot(Fn, L, 1, nc - 1, ordmin=0, hide_poles=not hide, freqlim=None, Fn_cov=Fc)
        plt.close("all")
        fig, ax = plot.stab_plot(Fn, L, 1, nc - 1, ordmin=0, hide_poles=hide, freqlim=flim, Fn_cov=Fc)
    elif base == "plot.cluster_plot":
        Fn, X, L = ct["Fn"].copy(), ct["Xi"].copy(), lab.copy()
        plot.cluster_plot(Fn, X, L, ordmin=0, hide_poles=not hide, freqlim=None)
        plt.close("all")
        fig, ax = plot.cluster_plot(Fn, X, L, ordmin=0, hide_poles=hide, freqlim=flim)
    else:
        cls, meth = base.split(".")
        if cls == "SSIcov":
            alg = A.SSIcov(name="x", br=2, ordmax=nc - 1)
            kw = dict(Fn_poles_cov=ct["Fn_cov"].copy()) if cov else {}
            res = SSIResult(Fn_poles=ct["Fn"].copy(), Xi_poles=ct["Xi"].copy(), Phi_poles=ct["Phi"].copy(), Lab=lab.copy(), **kw)
        else:
            alg = A.pLSCF(name="x", ordmax=nc)
            res = pLSCFResult(Fn_poles=ct["Fn"].copy(), Xi_poles=ct["Xi"].copy(), Phi_poles=ct["Phi"].copy(), Lab=lab.copy())
        alg._set_data(np.zeros((8, 3)), fs=100.0)
        alg.result = res
        alg.plot_stab(hide_poles=not hide)
        alg.plot_cluster(hide_poles=not hide)
        plt.close("all")
        fig, ax = getattr(alg, meth)(hide_poles=hide, freqlim=flim)
    m = markers(ax)
    plt.close("all")
    return m


def check_case(col, cfgname, t, only=None):
    tab = t["pre"]["tab"]
    adm = t["post"]["adm"] if "adm" in t["post"] else None
    marks = t["post"]["marks"]
    hide = bool(t["act"]["d"]["hide"])
    flim = FLIMS[t["act"]["d"]["flim"]]
    ct = pw.concrete(tab)
    lab = np.array([[1 if (not pw.is_nan(c) and c["cj"]) else 0 for c in row] for row in tab])
    for site in (only or sites()):
        col.count()
        cluster = "cluster" in site
        def coord(cell):
            r, c = cell[0] - 1, cell[1] - 1
            return (float(ct["Fn"][r, c]), float(ct["Xi"][r, c]) if cluster else float(c))
        exp_st = sorted(coord(x) for x in marks["stable"])
        exp_un = sorted(coord(x) for x in marks["unstable"])
        try:
            st, un = draw(site, ct, lab, hide, flim)
        except Exception as e:
            col.violation(f"{site}/raised:{type(e).__name__}", f"{site} raised {e!r}",
                          {"config": cfgname, "transition": t, "site": site})
            continue
        bad = []
        if st != exp_st:
            bad.append("stable_markers")
        if un != exp_un:
            bad.append("unstable_markers")
        if bad:
            col.violation(f"{site}/{'+'.join(bad)}/{'hide' if hide else 'show'}" + ("/freqlim" if flim else ""),
                          f"{site} hide_poles={hide} freqlim={flim}: stable {st} (expected {exp_st}); unstable {un} (expected {exp_un}); table {tab}",
                          {"config": cfgname, "transition": t, "site": site})
    if marks["stable"] and (marks["unstable"] or hide):
        col.mark_nontrivial((cfgname, tab, hide))
        col.sample({"config": cfgname, "table": tab, "hide": hide, "marker_cells": marks}, cap=1)


def _chunk(args):
    cfgname, lines = args
    col = core.Collector()
    for ln in lines:
        t = json.loads(ln)
        core.guarded(col, lambda: check_case(col, cfgname, t), "plot", f"case {t}"[:600], {"config": cfgname, "transition": t})
        col.traces += 1
    return col


def run(ctx):
    ge, le, *_ = pw.indicator_tables()
    ctx.rule = ("every (pole table, label table, hide flag) case enumerated by TLC under focus 'draw' drawn by stab_plot, "
                "cluster_plot and the plot methods of SSIcov / pLSCF (with and without covariance error bars), and every "
                "singular-value table of Fdd.tla drawn by CMIF_plot / FDD.plot_CMIF; non-trivial: tables with at least one "
                "stable marker and at least one pole that must not get a stable marker; distinct by (config, table, hide)")
    ctx.trusted = ["TLC", "matplotlib artist accessors (Line2D.get_xydata, PathCollection.get_offsets)", "harness/poles_world.py"]
    ctx.assumptions = ["error-bar caps and LineCollections are other artist kinds and are not markers"]
    for c in configs(ctx.tier):
        consts = {
            "NR": c["nr"], "NC": c["nc"], "Ord": list(range(c["nc"])),
            "Tables": Raw(f"[1..{c['nr']} -> [1..{c['nc']} -> {ALPHA}]]"),
            "FDen": pw.FDEN, "XDen": pw.XDEN, "CDen": pw.CDEN, "Shapes": pw.shapes_tla(),
            "MpcGE": ge, "MpdLE": le, "HcSets": Raw("{}"), "ScSets": Raw("{}"), "ExSets": Raw("{}"),
            "DrawSets": Raw("{[hide |-> h, flim |-> f] : h \\in BOOLEAN, f \\in {0, 1, 2}}"), "Focus": "draw",
        }
        mod, cfg = ctx.model("Poles", "dr_" + c["name"], consts, invariants=["MarkersExact"],
                             action_constraints=["Emit"], view="View")
        r = ctx.tlc(mod, cfg, raw=True)
        if len(r.transitions) != r.generated - r.initial:
            raise core.MachineryFailure("emitted transition count differs from TLC's")
        lines = r.transitions
        chunks = [(c["name"], ch) for ch in core.chunks(lines, max(1, len(lines) // 64))]
        with mp.get_context("fork").Pool(16) as pool:
            for col in pool.map(_chunk, chunks):
                ctx.merge(col)
    try:
        from . import cmif
    except ImportError:
        cmif = None
    if cmif is not None:
        cmif.run(ctx)
    ctx.exhaustive = True


def replay(ctx, body):
    col = core.Collector()
    if body.get("cmif"):
        from . import cmif

        return cmif.replay(ctx, body)
    check_case(col, body["config"], body["transition"], only=[body["site"]] if body.get("site") else None)
    for k, w, _ in col.viol:
        print(k, w)
    return col.nviol == 0
