# -*- coding: utf-8 -*-
"""
C15 - runs are gated, deterministic, isolated, persistent; PoSER validates its inputs.

spec    : Setup.tla (Gated, ResultIsFunctionOfBinding, Isolation, NoDataChangeByOrchestration;
          SaveLoad is a stuttering step) and Poser.tla (constructor decision table)
binding : direction A.  Orchestration: every transition TLC explores is executed on real setup
          objects with *real* algorithm classes.  The provenance token <<class, bound history>> of
          the specification is interpreted by running that algorithm alone in a fresh setup on the
          interpreted data term; the result object in the replayed history must be equal to it field
          by field (bit-equal arrays).  PoSER: every configuration TLC enumerates is built from real
          SingleSetups with stub algorithms and handed to MultiSetup_PoSER; Built / ValueError must
          match `Accept`.
"""
from __future__ import annotations

import numpy as np

from .. import core, walk
from ..core import Raw
from . import c14
from .c14 import FS0

# ---- real algorithm alphabet (small parameters) -------------------------------------------
LOOSE = dict(conj=True, xi_max=1.0, mpc_lim=0.0, mpd_lim=10.0, cov_max=1e9)   # keep every stable conjugate pair


def _classes():
    from pyoma2 import algorithms as A

    return {
        1: ("FDD", A.FDD, A.FDD_MS, dict(nxseg=128, method_SD="per", pov=0.5)),
        2: ("SSIcov", A.SSIcov, A.SSIcov_MS, dict(br=6, ordmax=8, method="cov_mm", hc=LOOSE)),
        3: ("pLSCF", A.pLSCF, A.pLSCF_MS, dict(ordmax=5, nxseg=128, method_SD="cor",
                                                hc=dict(conj=False, xi_max=1.0, mpc_lim=0.0, mpd_lim=2.0))),
        4: ("FSDD", A.FSDD, A.EFDD_MS, dict(nxseg=256, method_SD="per", pov=0.5)),
        5: ("SSIdat", A.SSIdat, A.SSIdat_MS, dict(br=5, ordmax=6, hc=LOOSE)),
        6: ("EFDD", A.EFDD, A.EFDD_MS, dict(nxseg=256, method_SD="cor")),
        7: ("SSIcovR", A.SSIcov, A.SSIcov_MS, dict(br=5, ordmax=6, method="cov_R", hc=LOOSE)),
    }


def alg_factory(kind, cls, name, par):
    nm, single, multi, kw = _classes()[int(cls)]
    k = single if kind == "single" else multi
    return k(name=name, **kw) if par else k(name=name)


def mpe_args(alg):
    """Deterministic mpe arguments derived from the algorithm's own result."""
    r = alg.result
    cname = type(alg).__name__
    if r is None:
        if cname.startswith(("FDD", "EFDD", "FSDD")):
            return {"sel_freq": [5.0]}
        return {"sel_freq": [5.0], "order": 4}
    if cname.startswith(("FDD", "EFDD", "FSDD")):
        s1 = np.asarray(r.S_val)[0, 0, :]
        k = int(np.argmax(s1[3:-3])) + 3
        f = float(np.asarray(r.freq)[k])
        df = float(r.freq[1] - r.freq[0])
        if cname.startswith("FDD"):
            return {"sel_freq": [f], "DF": 2 * df}
        return {"sel_freq": [f], "DF1": 2 * df, "DF2": 12 * df, "sppk": 1, "npmax": 4}
    Fn = np.asarray(r.Fn_poles)
    col = Fn.shape[1] - 1
    while col > 0 and not np.isfinite(Fn[:, col]).any():
        col -= 1
    f = float(np.nanmin(Fn[:, col]))
    return {"sel_freq": [f], "order": int(col)}


# ---- equality of result / parameter objects --------------------------------------------------
def same_obj(a, b) -> bool:
    if a is None or b is None:
        return a is None and b is None
    if isinstance(a, np.ndarray) or isinstance(b, np.ndarray):
        a, b = np.asarray(a), np.asarray(b)
        if a.shape != b.shape or a.dtype != b.dtype:
            return False
        if a.dtype == object:
            return all(same_obj(x, y) for x, y in zip(a.ravel(), b.ravel()))
        return bool(np.array_equal(a, b, equal_nan=a.dtype.kind in "fc"))
    if isinstance(a, (list, tuple)):
        return isinstance(b, (list, tuple)) and len(a) == len(b) and all(same_obj(x, y) for x, y in zip(a, b))
    if isinstance(a, dict):
        return isinstance(b, dict) and a.keys() == b.keys() and all(same_obj(a[k], b[k]) for k in a)
    if hasattr(a, "model_fields") or hasattr(a, "__fields__"):
        if type(a) is not type(b):
            return False
        return same_obj(dict(a.__dict__), dict(b.__dict__))
    if isinstance(a, float) and isinstance(b, float) and a != a and b != b:
        return True
    try:
        return bool(a == b)
    except Exception:
        return False


class Expected:
    """result of `cls` run alone in a fresh setup on interp(bound history) (memoised per process)."""

    def __init__(self, kind, interp, ref):
        self.kind, self.interp, self.ref = kind, interp, ref
        self.memo = {}

    def get(self, cls, bh, bq, mpe):
        k = (cls, repr(bh), bool(mpe))
        if k in self.memo:
            return self.memo[k]
        from pyoma2.setup import MultiSetup_PreGER, SingleSetup

        arrs = [np.array(a, copy=True, order="K") for a in self.interp.arrays(bh)]
        fs = FS0 / bq
        if self.kind == "single":
            s = SingleSetup(arrs[0], fs=fs)
        else:
            s = MultiSetup_PreGER(fs=fs, ref_ind=[list(r) for r in self.ref], datasets=arrs)
        a = alg_factory(self.kind, cls, "alone", True)
        s.add_algorithms(a)
        s.run_by_name("alone")
        if mpe:
            s.mpe("alone", **mpe_args(a))
        self.memo[k] = (a.result, a.run_params)
        return self.memo[k]


def make_results(expected: Expected):
    def results(world, alg, e):
        bad = []
        n = e["name"]
        if not e["ran"]:
            if alg.result is not None:
                bad.append(f"result_stored_without_run[{n}]")
            if e["par"] and alg.run_params is None or (not e["par"] and alg.run_params is not None):
                bad.append(f"params[{n}]")
            return bad
        try:
            exp_res, exp_par = expected.get(e["cls"], e["bh"], e["bq"], e["mpe"])
        except Exception as ex:  # the reference run itself failed: machinery, not a verdict
            raise core.MachineryFailure(f"reference run of class {e['cls']} failed: {ex!r}")
        if alg.result is None or not same_obj(alg.result, exp_res):
            bad.append(f"result[{n}]")
        return bad

    return results


C14_ONLY = {"fs", "dt", "ndat", "len", "T"}   # metadata clauses are C14's business


def orch_configs(tier):
    a = lambda n, c, p=True: {"name": n, "cls": c, "par": p}  # noqa: E731
    base = dict(kind="single", n0=[2400], nch=[3], ref=None, dec=[], det=[], fil=[])
    out = [
        dict(base, name="orch_fdd_ssi", maxlen=4, alphabet=[a("a1", 1), a("a2", 2), a("a3", 3, False)],
             run_names=["a1", "a2", "a3", "zz"], runall=True, saveload=True, rollback=False),
        dict(base, name="orch_plscf_fsdd", maxlen=4, alphabet=[a("a1", 3), a("a2", 4), a("a3", 5, False)],
             run_names=["a1", "a2", "zz"], runall=True, saveload=True, rollback=False),
        dict(base, name="bind", maxlen=4, dec=[(2, "default")], det=["constant"],
             alphabet=[a("a1", 2), a("a2", 1)], run_names=["a1", "a2"], runall=True, saveload=False, rollback=True),
        dict(kind="preger", n0=[2400, 2000], nch=[3, 3], ref=[[0, 1], [2, 0]], dec=[], det=[], fil=[],
             name="orch_ms", maxlen=4, alphabet=[a("a1", 2), a("a2", 1), a("a3", 3, False)],
             run_names=["a1", "a2", "a3"], runall=True, saveload=True, rollback=False),
    ]
    if tier == "thorough":
        out += [
            dict(base, name="orch_dat_efdd", maxlen=5, alphabet=[a("a1", 5), a("a2", 6)],
                 run_names=["a1", "a2", "zz"], runall=True, saveload=True, rollback=False),
            dict(base, name="orch_covR_plscf", maxlen=5, alphabet=[a("a1", 7), a("a2", 3), a("a3", 1, False)],
                 run_names=["a1", "a2", "a3"], runall=True, saveload=True, rollback=False),
            dict(base, name="tree_fdd_ssi", maxlen=4, alphabet=[a("a1", 1), a("a2", 2)],
                 run_names=["a1", "a2"], runall=True, saveload=True, rollback=False, merge=False),
            dict(kind="preger", n0=[2400, 2000, 2200], nch=[3, 4, 3], ref=[[1, 0], [0, 3], [2, 1]], dec=[(2, "default")],
                 det=[], fil=[], name="bind_ms", maxlen=4, alphabet=[a("a1", 5), a("a2", 3)],
                 run_names=["a1", "a2"], runall=True, saveload=True, rollback=True),
        ]
    return out


def run_orch(ctx, c):
    # wrap c14.run_config with the result oracle
    from ..setup_world import Interp, make_datasets

    datasets = make_datasets(c["n0"], c["nch"], ctx.seed, FS0)
    interp = Interp(c["kind"], datasets, FS0, c["ref"])
    expected = Expected(c["kind"], interp, c["ref"])
    return c14.run_config(ctx, c, c["alphabet"], c["run_names"], results=make_results(expected), skip=C14_ONLY,
                          factory=alg_factory, mpe_args=mpe_args, runall=c["runall"], saveload=c["saveload"],
                          rollback=c["rollback"], merge=c.get("merge", True))


# ---- PoSER constructor -------------------------------------------------------------------
def run_poser(ctx):
    from . import poser_ctor

    poser_ctor.run(ctx)


def run(ctx):
    ctx.rule = ("every transition of Setup.tla (orchestration alphabets: add / run_by_name / run_all / mpe / "
                "save+load over real algorithm classes) executed on real setups, result objects compared bit-exactly "
                "with the same algorithm run alone on the interpreted bound data; every PoSER constructor "
                "configuration enumerated by Poser.tla built from real objects. Non-trivial: states with >= 1 "
                "stored result reached through >= 2 calls; PoSER configurations with >= 2 setups")
    ctx.trusted = ["TLC", "harness/setup_world.py", "numpy.array_equal", "pickle"]
    ctx.assumptions = ["bit-equality is demanded only between executions in one process with single-threaded BLAS",
                       "'nothing is stored' is read as: no result object is stored (run parameters echoing the "
                       "arguments of a rejected mpe call are not judged)"]
    for c in orch_configs(ctx.tier):
        run_orch(ctx, c)
    run_poser(ctx)
    # direction B: recorded random behaviours (gating, run / mpe flags, registry order, save / load) against TraceSetup.tla
    from . import trace_setup

    trace_setup.run(ctx, "C15")
    ctx.exhaustive = True


def replay(ctx, body):
    if body.get("poser"):
        from . import poser_ctor

        return poser_ctor.replay(ctx, body)
    from ..setup_world import Interp, World, make_datasets

    cs = {c["name"]: c for t in ("quick", "thorough") for c in orch_configs(t)}
    c = cs[body["config"]]
    datasets = make_datasets(c["n0"], c["nch"], ctx.seed, FS0)
    interp = Interp(c["kind"], datasets, FS0, c["ref"])
    expected = Expected(c["kind"], interp, c["ref"])
    w = World(c["kind"], datasets, FS0, c["ref"])
    raised = False
    for act in body["path"]:
        raised = w.apply(act, alg_factory=alg_factory, mpe_args=mpe_args)
    bads = [[b for b in c14.compare(w, interp, p, raised, make_results(expected)) if b not in C14_ONLY]
            for p in body["expected_post"]]
    print("mismatch per admissible post-state:", bads)
    return any(not b for b in bads)
