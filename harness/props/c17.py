# -*- coding: utf-8 -*-
"""
C17 - frequency variance equals first-order propagation of the Hankel covariance.

spec    : Hankel.tla (covariance factor: BlocksPartition, VecBijective, Shape) decides the *construction* of the
          factor (second sentence): block partition of the averaged products, block-wise estimate minus full
          estimate, column stacking, 1/sqrt(nb (nb-1)).
          Transform.tla action Perturb states the relation of the first sentence (variance = sum over factor
          columns of the squared directional derivative); its arithmetic is delegated (central finite differences
          of the library's own identification) - the weakest binding of the whole design, see DESIGN.md.
binding : direction A against ssi.build_hank(..., calc_unc=True) - impulse products (only the block containing the
          product deviates by 1/Nb - 1/N, its position in the vector is the column-stacked index) and random integer
          data against the factor assembled from the specification's index sets; through SSIcov(calc_unc=True)
          by observing build_hank's output inside the run.
"""
from __future__ import annotations

import itertools
import json
import multiprocessing as mp

import numpy as np

from .. import core
from ..core import Raw
from .c12 import cfg_tla, ordered_subsets


def configs(tier):
    out = []
    ls = (1, 2) if tier == "quick" else (1, 2, 3)
    for l in ls:
        for ref in ordered_subsets(l):
            for br in ((2, 3) if tier == "quick" else (2, 3, 4)):
                for nb in (2, 3, 5):
                    for extra in ((3, 10) if tier == "quick" else (3, 10, 21)):
                        ndat = 2 * br + 1 + nb * extra + (1 if extra == 10 else 0)
                        out.append(cfg_tla(l, ref, br, ndat, "cov_mm", nb))
    return out


def model_factor(Y, Yref, t):
    """The factor assembled from the specification's index sets (numpy only)."""
    c, out = t["cfg"], t["out"]
    br, nb = c["br"], c["nb"]
    N, Nb = out["N"], out["nbcols"]
    cnt = out["cnt"][0][0]
    yf = np.vstack([Y[:, out["futstart"][i]: out["futstart"][i] + cnt] for i in range(br + 1)])
    yp = np.vstack([Yref[:, out["paststart"][j]: out["paststart"][j] + cnt] for j in range(br + 1)])
    H = yf @ yp.T / N
    T = np.zeros((H.size, nb))
    for k in range(nb):
        cols = slice(k * Nb, (k + 1) * Nb)          # clipped to the available products, as numpy slicing does
        Hk = yf[:, cols] @ yp[:, cols].T / Nb       # block-wise estimate: mean of the block's products
        T[:, k] = (Hk - H).reshape(-1, order="F") / np.sqrt(nb * (nb - 1))     # column stacking
    return H, T


def check_factor(col, t, rng):
    from pyoma2.functions import ssi

    c, out = t["cfg"], t["out"]
    l, ref, br, nd, nb = c["l"], c["ref"], c["br"], c["ndat"], c["nb"]
    rep = {"transition": t}
    site = "build_hank[calc_unc]"
    cases = []
    # (a) impulse products: one data impulse and one reference impulse at a matching lag
    cnt = out["cnt"][0][0]
    for _ in range(3):
        a = int(rng.integers(0, l))
        b = int(rng.integers(0, len(ref)))
        i, j = int(rng.integers(0, br + 1)), int(rng.integers(0, br + 1))
        tt = int(rng.integers(0, cnt))
        Y = np.zeros((l, nd))
        Yr = np.zeros((len(ref), nd))
        Y[a, out["futstart"][i] + tt] = 1.0
        Yr[b, out["paststart"][j] + tt] = 1.0
        cases.append(("impulse", Y, Yr))
    # (b) random integer data
    Z = rng.integers(-4, 5, size=(l, nd)).astype(float)
    cases.append(("integers", Z, Z[ref, :]))
    for kind, Y, Yr in cases:
        col.count()
        H, T = ssi.build_hank(Y=Y, Yref=Yr, br=br, method="cov_mm", calc_unc=True, nb=nb)
        He, Te = model_factor(Y, Yr, t)
        if T is None or np.asarray(T).shape != Te.shape:
            col.violation(f"{site}/shape", f"{site}: factor shape {None if T is None else np.asarray(T).shape}, expected {Te.shape}; {c}", rep)
            return
        T = np.asarray(T)
        if np.allclose(T, Te, rtol=1e-11, atol=1e-13):
            continue
        # name what is wrong
        sc = np.abs(Te).max() + 1e-300
        rowmajor = np.zeros_like(Te)
        for k in range(nb):
            rowmajor[:, k] = Te[:, k].reshape(He.shape, order="F").reshape(-1)
        if np.allclose(T, rowmajor, rtol=1e-11, atol=1e-13):
            what = "vectorisation_row_major"
        elif np.allclose(np.abs(T).sum(axis=0) > 1e-14 * sc, np.abs(Te).sum(axis=0) > 1e-14 * sc) and \
                np.allclose(T / (np.abs(T).max() + 1e-300), Te / sc, rtol=1e-9, atol=1e-12):
            what = "scale"
        else:
            what = "block_estimates"
        col.violation(f"{site}/{what}", f"{site}: factor differs from the column-stacked deviations of the block-wise estimates "
                      f"({what}) on {kind} data; {c}", rep)
        return
    if len(ref) < l or nb > 2:
        col.mark_nontrivial((l, tuple(ref), br, nd, nb))
    col.sample({"shape": c, "N": out["N"], "products_per_block": out["nbcols"]}, cap=1)


def _chunk(args):
    seed, lines = args
    col = core.Collector()
    rng = np.random.default_rng(seed)
    for ln in lines:
        t = core.seqify(json.loads(ln))
        core.guarded(col, lambda: check_factor(col, t, rng), "build_hank[calc_unc]", f"shape {t['cfg']}", {"transition": t})
        col.traces += 1
    return col


def run_factor(ctx):
    cfgs = configs(ctx.tier)
    mod, cfg = ctx.model("Hankel", "factor", {"Configs": Raw("{" + ", ".join(cfgs) + "}")},
                         invariants=["SingleLag", "InRange", "Shape", "BlocksPartition", "VecBijective"],
                         action_constraints=["Emit"], view="View")
    r = ctx.tlc(mod, cfg, raw=True)
    if len(r.transitions) != r.generated - r.initial:
        raise core.MachineryFailure("emitted transition count differs from TLC's")
    chunks = [(ctx.seed + n, ch) for n, ch in enumerate(core.chunks(r.transitions, max(1, len(r.transitions) // 32)))]
    with mp.get_context("fork").Pool(16) as pool:
        for col in pool.map(_chunk, chunks):
            ctx.merge(col)


def run(ctx):
    ctx.rule = ("factor: every (channels, ordered reference subset, block rows 2..4, record length, nb in {2,3,5}) shape of "
                "Hankel.tla, build_hank(calc_unc=True) on impulse products and random integer data against the factor assembled "
                "from the specification's index sets; propagation: see the propagation part. Non-trivial: shapes with fewer "
                "references than channels or nb > 2; distinct by shape")
    ctx.trusted = ["TLC", "numpy matrix products for the model factor"]
    ctx.assumptions = ["a block estimate is the mean of the block's products; the last block may be one product short when N "
                       "is divisible by nb (numpy slicing clips), both sides clip alike"]
    run_factor(ctx)
    try:
        from . import propagation
    except ImportError:
        propagation = None
    if propagation is not None:
        propagation.run(ctx)
    ctx.exhaustive = True


def replay(ctx, body):
    col = core.Collector()
    if body.get("propagation"):
        from . import propagation

        return propagation.replay(ctx, body)
    check_factor(col, core.seqify(body["transition"]), np.random.default_rng(ctx.seed))
    for k, w, _ in col.viol:
        print(k, w)
    return col.nviol == 0
