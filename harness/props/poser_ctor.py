# -*- coding: utf-8 -*-
"""
PoSER constructor decision table (second half of C15): every configuration enumerated by
Poser.tla is built from real SingleSetup objects carrying stub algorithms and handed to
MultiSetup_PoSER.  Outcome must be `Built` iff the specification's Accept, else ValueError.
"""
from __future__ import annotations

import json
import multiprocessing as mp

import numpy as np

from .. import core


def _stubs():
    from pyoma2.algorithms.base import BaseAlgorithm
    from pyoma2.algorithms.data.result import BaseResult
    from pyoma2.algorithms.data.run_params import BaseRunParams

    class StubParams(BaseRunParams):
        p: int = 1

    class StubA(BaseAlgorithm[StubParams, BaseResult, np.ndarray]):
        RunParamCls = StubParams
        ResultCls = BaseResult

        def run(self):
            return BaseResult()

        def mpe(self, *a, **k):
            super().mpe(*a, **k)
            self.result.Fn = np.array([1.0])
            self.result.Phi = np.ones((self.data.shape[1], 1))

        def mpe_from_plot(self, *a, **k):
            pass

    class StubB(StubA):
        pass

    class StubC(StubA):
        pass

    return {1: StubA, 2: StubB, 3: StubC}


_ST = None


def build_and_construct(cfg):
    """Returns 'Built', 'ValueError' or the name of any other exception type."""
    global _ST
    from pyoma2.setup import MultiSetup_PoSER, SingleSetup

    if _ST is None:
        _ST = _stubs()
    setups = []
    for s in cfg["setups"]:
        ss = SingleSetup(np.zeros((4, 2)), fs=10.0)
        algs = []
        for j, a in enumerate(s):
            alg = _ST[a["type"]](name=f"alg{j}", p=1)
            algs.append(alg)
        if algs:
            ss.add_algorithms(*algs)
        for j, a in enumerate(s):
            if a["st"] >= 1:
                ss.run_by_name(f"alg{j}")
            if a["st"] >= 2:
                ss.mpe(f"alg{j}")
        setups.append(ss)
    names = [f"n{k}" for k in range(cfg["nnames"])]
    try:
        MultiSetup_PoSER(ref_ind=[[0] for _ in setups], single_setups=setups, names=names)
        return "Built"
    except ValueError:
        return "ValueError"
    except Exception as e:  # any other exception type is a mismatch
        return type(e).__name__


def _chunk(lines):
    col = core.Collector()
    for ln in lines:
        t = json.loads(ln)
        cfg, exp = t["cfg"], t["out"]
        got = build_and_construct(cfg)
        col.count()
        if len(cfg["setups"]) >= 2:
            col.mark_nontrivial(ln)
        if got != exp:
            reason = "accepted an invalid configuration" if got == "Built" else f"raised {got} instead of {exp}"
            shape = [[(a["type"], a["st"]) for a in s] for s in cfg["setups"]]
            col.violation(f"poser_ctor/{exp}->{got}", f"MultiSetup_PoSER {reason}: setups={shape} names={cfg['nnames']}",
                          {"poser": True, "cfg": cfg, "expected": exp, "observed": got})
        elif exp == "Built":
            col.sample({"poser_config": cfg, "outcome": got}, cap=1)
    col.traces = col.evaluations
    return col


def run(ctx):
    quick = ctx.tier == "quick"
    consts = {"MaxSetups": 3, "MaxAlgs": 2, "Types": {1, 2}, "MaxNames": 3}
    mod, cfg = ctx.model("Poser", "ctor", consts,
                         invariants=["BuiltOnlyIfValid", "RejectedOnlyIfInvalid", "TwoOutcomes"],
                         action_constraints=["Emit"], view="View")
    r = ctx.tlc(mod, cfg, raw=True)
    lines = r.transitions
    if len(lines) != r.generated - r.initial:
        raise core.MachineryFailure("emitted transition count differs from TLC's")
    if quick:
        # every configuration with <= 2 setups, and a seeded sample of the 3-setup ones
        rng = np.random.default_rng(ctx.seed)
        small, big = [], []
        for ln in lines:
            (small if len(json.loads(ln)["cfg"]["setups"]) <= 2 else big).append(ln)
        keep = small + [big[i] for i in rng.choice(len(big), size=min(40000, len(big)), replace=False)]
        ctx.extra["poser_configs_enumerated_by_tlc"] = len(lines)
        ctx.extra["poser_configs_replayed"] = len(keep)
        lines = keep
    else:
        # 4 setups, one algorithm each, three types: exhaustive (4 setups x 2 algorithms would exceed TLC's set-size limit)
        consts4 = {"MaxSetups": 4, "MaxAlgs": 1, "Types": {1, 2, 3}, "MaxNames": 2}
        mod4, cfg4 = ctx.model("Poser", "ctor4", consts4, invariants=["BuiltOnlyIfValid", "RejectedOnlyIfInvalid"],
                               action_constraints=["Emit"], view="View")
        r4 = ctx.tlc(mod4, cfg4, raw=True)
        lines = lines + r4.transitions
    chunks = list(core.chunks(lines, max(1, len(lines) // 64)))
    with mp.get_context("fork").Pool(16) as pool:
        for col in pool.map(_chunk, chunks):
            ctx.merge(col)


def replay(ctx, body):
    got = build_and_construct(body["cfg"])
    print("expected", body["expected"], "observed", got)
    return got == body["expected"]
