# -*- coding: utf-8 -*-
"""
Interpretation / projection for Ident.tla and the identification parts of C01, C03 and C02 (end-to-end).

interp : synthesise the noise-free free decay 2 Re(Phi diag(c) exp(lambda t)) of a catalogue system at given sensors
         (numpy only), or an exact rank-2m Hankel matrix O * Gamma
proj   : map a pole-table column onto catalogue mode ids (|df|/f <= 1e-6, |dxi| <= 1e-6, MAC >= 1 - 1e-8; anything
         unmatched projects to "unknown", which no specification state contains)
"""
from __future__ import annotations

import json
import math
import multiprocessing as mp

import numpy as np

from .. import core, tables
from ..core import Raw

FS = tables.IDENT_FS
DT = 1.0 / FS
TOL_F, TOL_XI, TOL_MAC = 1e-6, 1e-6, 1e-8


def lam(k):
    w = 2 * math.pi * tables.MODE_F[k - 1]
    xi = tables.MODE_XI[k - 1]
    return complex(-xi * w, w * math.sqrt(1 - xi * xi))


def shape(k, sensors):
    return np.array([tables.mode_shape(k, s) for s in sensors])


def free_decay(sys_, sensors, ndat, rng, gain=1.0):
    t = np.arange(ndat) * DT
    y = np.zeros((ndat, len(sensors)))
    for k in sorted(sys_):
        c = complex(rng.uniform(0.5, 1.5), rng.uniform(-1, 1))
        y += 2 * np.real(np.outer(np.exp(lam(k) * t) * c, shape(k, sensors)))
    return gain * y


def exact_hankel(sys_, sensors, refs, br, rng):
    modes = sorted(sys_)
    mu = np.array([np.exp(lam(k) * DT) for k in modes])
    mu = np.concatenate([mu, mu.conj()])
    Phi = np.array([shape(k, sensors) for k in modes]).T
    Phi = np.hstack([Phi, Phi.conj()])
    m = len(modes)
    G = rng.standard_normal((m, len(refs))) + 1j * rng.standard_normal((m, len(refs)))
    G = np.vstack([G, G.conj()])
    O = np.vstack([Phi * mu**i for i in range(br + 1)])
    Gam = np.hstack([(mu**j)[:, None] * G for j in range(br + 1)])
    return (O @ Gam).real


def mac(a, b):
    return abs(np.vdot(a, b)) ** 2 / (np.vdot(a, a).real * np.vdot(b, b).real)


def project_column(Fn, Xi, Phi, Lam, col, sys_, sensors):
    """-> (dict mode -> count, list of problems).  Rows of the column are matched to catalogue modes."""
    counts = {k: 0 for k in sys_}
    problems = []
    n = Fn.shape[0]
    for r in range(n):
        f = Fn[r, col]
        if not np.isfinite(f):
            continue
        hit = None
        for k in sys_:
            if abs(f - tables.MODE_F[k - 1]) <= TOL_F * tables.MODE_F[k - 1]:
                hit = k
                break
        if hit is None:
            problems.append(("unknown_pole", f"row {r}: f = {f!r} matches no mode of the system"))
            continue
        if abs(Xi[r, col] - tables.MODE_XI[hit - 1]) > TOL_XI:
            problems.append(("damping", f"mode {hit}: damping {Xi[r, col]!r}, true {tables.MODE_XI[hit - 1]}"))
        ph = shape(hit, sensors)
        if Lam is not None and np.imag(Lam[r, col]) < 0:
            ph = ph.conj()
        if 1 - mac(Phi[r, col, :], ph) > TOL_MAC:
            problems.append(("shape", f"mode {hit}: MAC with the true shape (in global sensor order {list(sensors)}) = "
                                       f"{mac(Phi[r, col, :], ph):.10f}"))
        v = Phi[r, col, :]
        if abs(abs(v[np.argmax(np.abs(v))]) - 1) > 1e-9:
            problems.append(("normalisation", f"mode {hit}: largest shape component is not 1"))
        counts[hit] += 1
    return counts, problems


def fget(f, k):
    """value of a TLA+ function rendered by ToJson (a sequence when its domain is 1..n, else an object)"""
    return f[k - 1] if isinstance(f, list) else f[str(k)]


def consts(**kw):
    nm = len(tables.MODE_F)
    zero = {k: tables.mode_zero_at(k) for k in range(1, nm + 1)}
    base = {"Systems": Raw("{}"), "ZeroAt": Raw("<<" + ", ".join("{" + ", ".join(map(str, sorted(zero[k]))) + "}" for k in range(1, nm + 1)) + ">>"),
            "NSensors": 3, "RefSizes": {1}, "Methods": {"cov_mm"}, "Routines": {"fast"}, "BrExtra": {0},
            "MultiNRef": 1, "MultiCounts": Raw("{}"), "GainPats": {0}, "Pipeline": "single"}
    base.update(kw)
    return base


def systems_tla(sizes, pool):
    import itertools

    out = []
    for m in sizes:
        combos = list(itertools.combinations(pool, m))
        out += combos
    return Raw("{" + ", ".join("{" + ", ".join(map(str, c)) + "}" for c in out) + "}"), out


GAIN_PATS = {0: [1.0, 1.0, 1.0, 1.0], 1: [1.0, 0.01, 100.0, 3.0], 2: [-7.0, 1.0, 0.05, 20.0]}
LOOSE = dict(conj=True, xi_max=0.5, mpc_lim=0.0, mpd_lim=10.0, cov_max=1e9)


# ---------------------------------------------------------------------------------------------------------
# single pipelines (C01)
# ---------------------------------------------------------------------------------------------------------
def check_single(col, t, seed, pipeline):
    from pyoma2 import algorithms as A
    from pyoma2.functions import ssi
    from pyoma2.setup import SingleSetup

    sys_, lay, par, out = sorted(t["sys"]), t["lays"][0], t["par"], t["out"]
    sensors = lay["chan"]
    ref0 = [r - 1 for r in lay["ref"]]
    m = len(sys_)
    order = out["order"]
    br, method, routine = par["br"], par["method"], par["routine"]
    rng = np.random.default_rng(seed)
    rep = {"pipeline": pipeline, "transition": t, "seed": seed}
    tag = f"{pipeline}/{method}/{routine}"

    def judge(Fn, Xi, Phi, Lam, site):
        counts, problems = project_column(Fn, Xi, Phi, Lam, order, sys_, sensors)
        for k in sys_:
            if counts[k] != fget(out["at_order"], k):
                problems.insert(0, ("pole_count", f"mode {k} appears {counts[k]} times at order {order}, expected {fget(out['at_order'], k)}"))
        if problems:
            kind = problems[0][0]
            col.violation(f"{site}/{method}/{kind}", f"{site} ({method}, {routine}): {problems[0][1]}; system {sys_}, sensors {sensors}, "
                          f"references {ref0}, br {br}", rep)
            return False
        return True

    for ndat in ((400, 700) if pipeline == "single" else (0,)):
        col.count()
        if pipeline == "single":
            y = free_decay(sys_, sensors, ndat, rng)
            Y = y.T
            H, _ = ssi.build_hank(Y=Y, Yref=Y[ref0, :], br=br, method=method)
        else:
            H = exact_hankel(sys_, sensors, [sensors[r] for r in ref0], br, rng)
        sv = np.linalg.svd(H, compute_uv=False)
        if len(sv) < order or sv[order - 1] / sv[0] < 1e-7:
            col.bump("skipped_ill_conditioned")
            continue
        if routine == "fast":
            Obs, AA, CC, *_ = ssi.SSI_fast(H, br, order)
        else:
            AA, CC = ssi.SSI(H, br, order)
            Obs = None
        Fn, Xi, Phi, Lam, *_ = ssi.SSI_poles(Obs, AA, CC, order, DT)
        if not judge(Fn, Xi, Phi, Lam, "functions"):
            return
        # extraction at that order returns those values
        req = [tables.MODE_F[k - 1] for k in sys_]
        f_e, x_e, p_e, o_e, *_ = ssi.SSI_mpe(req, Fn, Xi, Phi, order)          # default rtol (5 %): close modes stay apart
        if len(f_e) != m or np.abs(np.asarray(f_e) - np.array(req)).max() > TOL_F * max(req):
            col.violation(f"ssi.SSI_mpe/{method}/extraction", f"SSI_mpe at order {order} returned {f_e}, system frequencies {req}", rep)
            return
        if pipeline == "single" and routine == "fast":
            ss = SingleSetup(y, fs=FS)
            cls = A.SSIcov if method == "cov_mm" else A.SSIdat
            kw = dict(br=br, ordmax=order, ref_ind=list(ref0), hc=LOOSE)
            if method == "cov_mm":
                kw["method"] = "cov_mm"
            alg = cls(name="a", **kw)
            ss.add_algorithms(alg)
            ss.run_by_name("a")
            r = alg.result
            if not judge(np.asarray(r.Fn_poles), np.asarray(r.Xi_poles), np.asarray(r.Phi_poles), np.asarray(r.Lambds), type(alg).__name__ + ".run"):
                return
            ss.mpe("a", sel_freq=req, order=order)
            bad = None
            if len(r.Fn) != m or np.abs(np.asarray(r.Fn) - np.array(req)).max() > TOL_F * max(req):
                bad = f"Fn {r.Fn}"
            elif np.abs(np.asarray(r.Xi) - np.array([tables.MODE_XI[k - 1] for k in sys_])).max() > TOL_XI:
                bad = f"Xi {r.Xi}"
            else:
                for i, k in enumerate(sys_):
                    ph = shape(k, sensors)
                    if min(1 - mac(np.asarray(r.Phi)[:, i], ph), 1 - mac(np.asarray(r.Phi)[:, i], ph.conj())) > TOL_MAC:
                        bad = f"shape of mode {k}"
            if bad:
                col.violation(f"{type(alg).__name__}.mpe/{method}/extraction", f"{type(alg).__name__}.mpe at order {order}: {bad}; system {sys_}", rep)
                return
    if m >= 2 and len(ref0) < len(sensors):
        col.mark_nontrivial((pipeline, tuple(sys_), tuple(lay["ref"]), br, method, routine))
        col.sample({"pipeline": pipeline, "system": sys_, "sensors": sensors, "references": lay["ref"], "params": par,
                    "predicted": {"order": order, "modes_at_order": out["at_order"]}}, cap=1)


# ---------------------------------------------------------------------------------------------------------
# multi-setup pipelines (C03 identification, C02 end-to-end)
# ---------------------------------------------------------------------------------------------------------
def check_multi(col, t, seed, pipeline):
    from pyoma2 import algorithms as A
    from pyoma2.functions import gen, ssi
    from pyoma2.setup import MultiSetup_PoSER, MultiSetup_PreGER, SingleSetup

    sys_, lays, par, out = sorted(t["sys"]), t["lays"], t["par"], t["out"]
    m = len(sys_)
    order = out["order"]
    br, method = par["br"], par["method"]
    gains = GAIN_PATS[par["gain"]]
    rng = np.random.default_rng(seed)
    rep = {"pipeline": pipeline, "transition": t, "seed": seed}
    datasets = [free_decay(sys_, l["chan"], 500 + 37 * i, rng, gain=gains[i]) for i, l in enumerate(lays)]
    reflist = [[r - 1 for r in l["ref"]] for l in lays]
    rows = out["rows"]
    req = [tables.MODE_F[k - 1] for k in sys_]
    col.count()

    def judge(Fn, Xi, Phi, Lam, site):
        counts, problems = project_column(Fn, Xi, Phi, Lam, order, sys_, rows)
        for k in sys_:
            if counts[k] != 2:
                problems.insert(0, ("pole_count", f"mode {k} appears {counts[k]} times at order {order}, expected 2"))
        if problems:
            col.violation(f"{site}/{method}/{problems[0][0]}", f"{site} ({method}): {problems[0][1]}; system {sys_}, layouts {lays}, "
                          f"gains {gains[:len(lays)]}, br {br}", rep)
            return False
        return True

    if pipeline == "multi":
        Y = gen.pre_multisetup([d.copy() for d in datasets], reflist)
        Obs, AA, CC = ssi.SSI_multi_setup(Y, FS, br, order, method_hank=method)
        Fn, Xi, Phi, Lam, *_ = ssi.SSI_poles(Obs, AA, CC, order, DT)
        if not judge(Fn, Xi, Phi, Lam, "ssi.SSI_multi_setup"):
            return
        ms = MultiSetup_PreGER(fs=FS, ref_ind=reflist, datasets=[d.copy() for d in datasets])
        cls = A.SSIcov_MS if method == "cov_mm" else A.SSIdat_MS
        kw = dict(br=br, ordmax=order, hc=LOOSE)
        if method == "cov_mm":
            kw["method"] = "cov_mm"
        alg = cls(name="a", **kw)
        ms.add_algorithms(alg)
        ms.run_all()
        r = alg.result
        if not judge(np.asarray(r.Fn_poles), np.asarray(r.Xi_poles), np.asarray(r.Phi_poles), np.asarray(r.Lambds), type(alg).__name__ + ".run"):
            return
        ms.mpe("a", sel_freq=req, order=order)
        ok = len(r.Fn) == m and np.abs(np.asarray(r.Fn) - np.array(req)).max() <= TOL_F * max(req)
        if ok:
            for i, k in enumerate(sys_):
                ph = shape(k, rows)
                if min(1 - mac(np.asarray(r.Phi)[:, i], ph), 1 - mac(np.asarray(r.Phi)[:, i], ph.conj())) > TOL_MAC:
                    ok = False
        if not ok:
            col.violation(f"{type(alg).__name__}.mpe/{method}/extraction", f"{type(alg).__name__}.mpe: extracted modes differ from the global system "
                          f"{sys_} in global order {rows}", rep)
            return
    else:  # poser
        setups = []
        for d, refs in zip(datasets, reflist):
            ss = SingleSetup(d.copy(), fs=FS)
            alg = A.SSIcov(name="a", br=br + 1, ordmax=order, method="cov_mm", ref_ind=list(refs), hc=LOOSE)
            ss.add_algorithms(alg)
            ss.run_all()
            ss.mpe("a", sel_freq=req, order=order, rtol=1e-4)
            setups.append(ss)
        ps = MultiSetup_PoSER(ref_ind=reflist, single_setups=setups, names=["ssi"])
        merged = ps.merge_results()
        if not isinstance(merged, dict) or "ssi" not in merged:
            col.violation("MultiSetup_PoSER.merge_results/e2e/no_result_for_group", f"PoSER after per-setup SSI: merge_results returned "
                          f"{type(merged).__name__} without the group 'ssi'; layouts {lays}", rep)
            return
        res = merged["ssi"]
        bad = None
        if len(res.Fn) != m or np.abs(np.asarray(res.Fn) - np.array(req)).max() > 1e-6 * max(req):
            bad = ("frequencies", f"merged Fn {res.Fn}, global system {req}")
        elif np.abs(np.asarray(res.Xi) - np.array([tables.MODE_XI[k - 1] for k in sys_])).max() > 1e-6:
            bad = ("damping", f"merged Xi {res.Xi}")
        else:
            for i, k in enumerate(sys_):
                ph = shape(k, rows)
                mm = max(mac(np.asarray(res.Phi)[:, i], ph), mac(np.asarray(res.Phi)[:, i], ph.conj()))
                if 1 - mm > 1e-7:
                    bad = ("shape", f"merged shape of mode {k}: MAC {mm:.9f} with the global shape in order {rows}")
        if bad:
            col.violation(f"MultiSetup_PoSER.merge_results/e2e/{bad[0]}", f"PoSER after per-setup SSI: {bad[1]}; layouts {lays}, gains {gains[:len(lays)]}", rep)
            return
    if any(l["ref"] != list(range(1, len(l["ref"]) + 1)) for l in lays) and par["gain"] != 0:
        col.mark_nontrivial((pipeline, tuple(sys_), json.dumps(lays), br, method, par["gain"]))
        col.sample({"pipeline": pipeline, "system": sys_, "layouts": lays, "params": par, "global_rows": rows}, cap=1)


def _chunk(args):
    pipeline, seed, lines = args
    col = core.Collector()
    for n, ln in enumerate(lines):
        t = json.loads(ln)
        fn = (lambda: check_single(col, t, seed + n, pipeline)) if pipeline in ("single", "real") else (lambda: check_multi(col, t, seed + n, pipeline))
        core.guarded(col, fn, pipeline, f"{pipeline} pipeline for system {t['sys']}, layouts {t['lays']}, {t['par']}",
                     {"pipeline": pipeline, "transition": t, "seed": seed + n})
        col.traces += 1
    return col


def run_pipeline(ctx, name, pipeline, cap=None, **kw):
    mod, cfg = ctx.model("Ident", name, consts(Pipeline=pipeline, **kw),
                         invariants=["ExactAtTrueOrder", "BlockRowsAdmissible", "ObservablePrecondition", "GlobalShapeOrder",
                                     "EnoughBlockColumns"],
                         action_constraints=["Emit"], view="View")
    r = ctx.tlc(mod, cfg, raw=True)
    if len(r.transitions) != r.generated - r.initial:
        raise core.MachineryFailure("emitted transition count differs from TLC's")
    lines = sorted(r.transitions)
    if cap and len(lines) > cap:
        rng = np.random.default_rng(ctx.seed)
        idx = rng.choice(len(lines), size=cap, replace=False)
        ctx.extra[f"{name}_enumerated"] = len(lines)
        ctx.extra[f"{name}_replayed"] = cap
        lines = [lines[i] for i in sorted(idx)]
    chunks = [(pipeline, ctx.seed * 7 + 1000 * n, ch) for n, ch in enumerate(core.chunks(lines, max(1, len(lines) // 64)))]
    with mp.get_context("fork").Pool(16) as pool:
        for col in pool.map(_chunk, chunks):
            ctx.merge(col)


def run_c01(ctx):
    quick = ctx.tier == "quick"
    pool = [1, 2, 4, 5, 7, 11] if quick else list(range(1, 12))
    for nsens, sizes, refsizes in (((3, (1, 2), {1, 2}), (4, (2, 3), {2})) if quick else
                                   ((2, (1, 2), {1, 2}), (3, (1, 2, 3), {1, 2, 3}), (5, (2, 4), {2, 3}), (8, (3, 6), {2}))):
        systems, _ = systems_tla(sizes, pool if nsens < 8 else pool[:7])
        run_pipeline(ctx, f"single{nsens}", "single", cap=(1500 if quick else 12000), Systems=systems, NSensors=nsens, RefSizes=refsizes,
                     Methods={"cov_mm", "dat"}, Routines={"fast", "legacy"}, BrExtra=({0, 2} if quick else {0, 1, 4}))
        run_pipeline(ctx, f"real{nsens}", "real", cap=(800 if quick else 6000), Systems=systems, NSensors=nsens, RefSizes=refsizes,
                     Methods={"cov_mm"}, Routines={"fast", "legacy"}, BrExtra={0, 3})


def run_c03(ctx):
    quick = ctx.tier == "quick"
    # (sizes are chosen so that TLC enumerates at most a few 10^5 initial states per instance: the number of layouts grows
    # with the factorial of the channels per setup)
    if quick:
        plans = [(1, "{<<1, 1>>, <<2, 1>>}", (1, 2), [1, 2, 4, 6, 11]), (2, "{<<1, 1>>}", (2, 3), [1, 2, 4, 6, 11])]
    else:
        plans = [(1, "{<<1, 1>>, <<2, 1>>, <<1, 2, 1>>}", (1, 2, 3), [1, 2, 3, 4, 6, 7, 9, 10, 11]),
                 (2, "{<<1, 1>>, <<2, 1>>, <<1, 1, 1>>}", (2, 3, 4), [1, 3, 4, 6, 9, 11]),
                 (3, "{<<1, 1>>}", (3, 5), [1, 3, 4, 6, 9, 11])]
    for nref, cnts, sizes, pool in plans:
        systems, _ = systems_tla(sizes, pool)
        run_pipeline(ctx, f"multi{nref}", "multi", cap=(1200 if quick else 10000), Systems=systems, MultiNRef=nref, MultiCounts=Raw(cnts),
                     Methods={"cov_mm", "dat"}, BrExtra=({0, 2} if quick else {0, 1, 3}), GainPats={0, 1, 2})
    ctx.assumptions.append("identification: closeness to a catalogue mode is |df|/f <= 1e-6, |dxi| <= 1e-6, 1 - MAC <= 1e-8; "
                           "configurations whose generated Hankel matrix is ill conditioned are skipped and counted")


def run_c02_e2e(ctx):
    quick = ctx.tier == "quick"
    # real-shape modes only: per-setup SSI shapes are normalised to their own largest component, which for a complex
    # mode is a *complex* factor per setup - outside the premise of C02 (arbitrary non-zero real factor per setup)
    pool = [1, 2, 4, 7] if quick else [1, 2, 4, 7, 9]
    for nref, cnts, sizes in (((1, "{<<1, 1>>}", (1, 2)), (2, "{<<1, 1>>}", (2,))) if quick else
                              ((1, "{<<1, 1>>, <<2, 1>>}", (1, 2)), (2, "{<<1, 1>>, <<1, 1, 1>>}", (2, 3)))):
        systems, _ = systems_tla(sizes, pool)
        run_pipeline(ctx, f"poser{nref}", "poser", cap=(400 if quick else 4000), Systems=systems, MultiNRef=nref, MultiCounts=Raw(cnts),
                     Methods={"cov_mm"}, BrExtra={1}, GainPats={1, 2})


def replay(ctx, body):
    col = core.Collector()
    t = body["transition"]
    if body["pipeline"] in ("single", "real"):
        check_single(col, t, body["seed"], body["pipeline"])
    else:
        check_multi(col, t, body["seed"], body["pipeline"])
    for k, w, _ in col.viol:
        print(k, w)
    return col.nviol == 0
