# -*- coding: utf-8 -*-
"""
Conformance direction B for Setup.tla: validate recorded executions against TraceSetup.tla.

Sources of traces: (a) the repository's own test `test_single_setup.py::test_plot_data` run under the pytest plugin
harness/pytest_trace.py (environment variable PYOMA2_VERIF_TRACE names the output file); (b) seeded random drivers
over the whole public API of SingleSetup / MultiSetup_PreGER with real algorithm classes, longer than the
exhaustive bound of direction A.

Verdicts are total: a trace is accepted, or rejected at the index of the first unexplained event, with the last
abstract state TLC reached and the event it could not explain.
"""
from __future__ import annotations

import json
import multiprocessing as mp
import os
REPO = os.environ.get("VERIF_SELFTEST_REPO") or "/repo"
import re
import subprocess
import sys
import tempfile

import numpy as np

from .. import core
from ..core import Raw, tla

FIELDS = ("fs", "dt", "ndat", "len", "T", "reg", "data_ok", "user_ok")


def event_tla(e):
    d = {"ev": e["ev"], "raised": bool(e["raised"]), "t_known": bool(e.get("t_known", False))}
    for k in ("q", "f", "alg", "cls", "par"):
        if k in e and e[k] is not None:
            d[k] = e[k]
    d["fs"] = e["fs"]
    d["dt"] = e["dt"]
    d["ndat"] = e["ndat"]
    d["len"] = e["len"]
    d["T"] = [list(t) for t in e["T"]]
    d["reg"] = Raw("<<" + ", ".join(tla({"name": r["name"], "ran": bool(r["ran"]), "mpe": bool(r["mpe"])}) for r in e["reg"]) + ">>")
    d["data_ok"] = bool(e["data_ok"])
    d["user_ok"] = bool(e["user_ok"])
    return tla(d)


def mark_known(tr):
    """The listed finding C14-single-T-after-decimate: SingleSetup.T after decimate_data is Ndat_new / fs_old."""
    hit = False
    if tr["kind"] != "single":
        return False
    qlast = None
    for e in tr["events"]:
        if e["ev"] == "Decimate" and not e["raised"]:
            qlast = e["q"]
        if e["ev"] == "Rollback" and not e["raised"]:
            qlast = None
        if qlast is not None and "raw" in e:
            T, dt, nd = e["raw"]["T"][0], e["raw"]["dt"], e["ndat"][0]
            if abs(T - nd * dt / qlast) <= 1e-9 * abs(T) and abs(T - nd * dt) > 1e-9 * abs(T):
                e["t_known"] = True
                hit = True
    return hit


def validate_one(args):
    """-> dict(accepted, reached, n, why)"""
    idx, tr, scratch = args
    evs = tr["events"]
    if any(e["ev"] == "RecorderError" for e in evs):
        return {"idx": idx, "machinery": "recorder error: " + str([e for e in evs if e["ev"] == "RecorderError"][0])}
    for e in evs:
        if e["fs"] is None or e["dt"] is None or any(t is None for t in e["T"]):
            return {"idx": idx, "accepted": False, "reached": evs.index(e), "n": len(evs), "why": "a sampling attribute is not a small rational: "
                    + json.dumps(e["raw"])}
    # TLC's integers are 32-bit: the trace specification compares rationals by cross-multiplication with the model's values
    # (durations <<samples x decimation, Fs0>>, rates <<Fs0, decimation>>); a logged value whose cross products would
    # overflow cannot equal any value of the model and is rejected here (TLC would stop with an overflow error instead)
    lim, nmax, qmax, f0 = 2 ** 31 - 1, 2 * max(tr["n0"]) + 16, 4096, max(1, int(abs(tr["fs0"])) + 1)
    for k, e in enumerate(evs):
        bad = (any(abs(t[1]) * nmax > lim or abs(t[0]) * f0 > lim for t in e["T"])
               or abs(e["fs"][0]) * qmax > lim or abs(e["fs"][1]) * f0 > lim
               or abs(e["dt"][0]) * f0 > lim or abs(e["dt"][1]) * qmax > lim)
        if bad:
            return {"idx": idx, "accepted": False, "reached": k, "n": len(evs),
                    "why": "a sampling attribute is not a value the model can take (cross products overflow 32 bits): " + json.dumps(e.get("raw"))}
    fs0 = tr["fs0"]
    if abs(fs0 - round(fs0)) > 0:
        return {"idx": idx, "machinery": f"non-integer initial sampling frequency {fs0} is outside TraceSetup's integer model"}
    known = mark_known(tr)
    qs = sorted({e["q"] for e in evs if e["ev"] == "Decimate"})
    alph = {}
    for e in evs:
        if e["ev"] == "Add":
            alph[(e["alg"], e["cls"], bool(e["par"]))] = None
    names = sorted({e["alg"] for e in evs if e["ev"] in ("RunByName", "Mpe", "Add") and e.get("alg") is not None})
    nfil = len(tr["filters"])
    consts = {
        "N0": list(tr["n0"]), "Fs0": int(round(fs0)),
        "DecOps": Raw("{" + ", ".join(f'<<{q}, "default">>' for q in qs) + "}"),
        "DetOps": {"default"}, "FilOps": set(range(1, nfil + 1)),
        "FilMax": ({i + 1: (0 if ok else int(round(fs0))) for i, ok in enumerate(tr["filters"])} if nfil else Raw("<<>>")),
        "Alphabet": Raw("{" + ", ".join(tla({"name": n, "cls": c, "par": p}) for (n, c, p) in alph) + "}"),
        "RunNames": set(names), "WithRollback": True, "WithRunAll": True, "WithSaveLoad": True,
        "MaxLen": len(evs) + 1,
        "Trace": Raw("<<" + ",\n  ".join(event_tla(e) for e in evs) + ">>"),
    }
    mod, cfg = core.make_model(scratch, "TraceSetup", f"trace{idx}", consts, init="TInit", next_="TNext", constraints=["Reach"], view="TView")
    try:
        r = core.run_tlc(mod, cfg, scratch=scratch, workers=1, parse_transitions=False, heap="1g", timeout=300)
    except core.MachineryFailure as e:
        return {"idx": idx, "machinery": str(e)[:1500]}
    reached, last = 0, None
    for ln in r.prints:
        m = re.match(r'<<"REACH", (\d+), (".*")>>$', ln)
        if m and int(m.group(1)) >= reached:
            reached = int(m.group(1))
            last = json.loads(json.loads(m.group(2)))
    ok = reached == len(evs) + 1
    out = {"idx": idx, "accepted": ok, "reached": reached - 1, "n": len(evs), "known": known}
    if not ok:
        nxt = evs[reached - 1]
        out["why"] = {"last_abstract_state": last, "unexplained_event": {k: v for k, v in nxt.items() if k != "raw"}, "raw": nxt.get("raw")}
    return out


# ---------------------------------------------------------------------------------------------------------
# sources of traces
# ---------------------------------------------------------------------------------------------------------
def repo_test_traces(scratch):
    out = os.path.join(scratch, "repo_traces.json")
    env = dict(os.environ, PYOMA2_VERIF_TRACE=out, PYTHONPATH=f"/verif:{REPO}/src:{REPO}", MPLBACKEND="Agg", TQDM_DISABLE="1")
    p = subprocess.run([sys.executable, "-m", "pytest", "-q", "-p", "no:cacheprovider", "-p", "harness.pytest_trace",
                        "tests/integration/setup/test_single_setup.py::test_plot_data",
                        "tests/integration/setup/test_single_setup.py::test_base_setup"],
                       cwd=REPO, env=env, capture_output=True, text=True, timeout=900)
    if not os.path.exists(out):
        raise core.MachineryFailure("the repository test run produced no trace file:\n" + p.stdout[-1500:] + p.stderr[-500:])
    return json.load(open(out))


def random_driver(seed, kind, length):
    """one random behaviour over the public API with real algorithm classes; returns the recorded traces (json)"""
    from pyoma2 import algorithms as A
    from pyoma2.functions import gen
    from pyoma2.setup import MultiSetup_PreGER, SingleSetup

    from ..setup_world import make_datasets
    from ..tracewrap import Recorder
    from .c15 import LOOSE, mpe_args

    rng = np.random.default_rng(seed)
    fs0 = int(rng.choice([60, 120, 200]))
    rec = Recorder().install()
    try:
        if kind == "single":
            ds = make_datasets([int(rng.integers(2500, 3500))], [3], seed, fs0)
            s = SingleSetup(ds[0], fs=fs0)
            classes = [lambda n: A.FDD(name=n, nxseg=128), lambda n: A.SSIcov(name=n, br=5, ordmax=6, hc=LOOSE), lambda n: A.FDD(name=n)]
        else:
            ds = make_datasets([int(rng.integers(2500, 3500)), int(rng.integers(2500, 3500))], [3, 4], seed, fs0)
            s = MultiSetup_PreGER(fs=fs0, ref_ind=[[1, 0], [0, 3]], datasets=ds)
            classes = [lambda n: A.FDD_MS(name=n, nxseg=128), lambda n: A.SSIcov_MS(name=n, br=5, ordmax=6, hc=LOOSE), lambda n: A.FDD_MS(name=n)]
        names = ["a", "b", "c"]
        for _ in range(length):
            act = rng.choice(["dec", "det", "fil", "rb", "add", "add2", "run", "runall", "mpe", "save"],
                             p=[0.12, 0.08, 0.1, 0.06, 0.18, 0.04, 0.16, 0.08, 0.12, 0.06])
            try:
                if act == "dec":
                    kw = [{}, {"ftype": "fir"}, {"n": 4}, {"zero_phase": False}][int(rng.integers(0, 4))]
                    s.decimate_data(q=int(rng.choice([2, 3])), **kw)
                elif act == "det":
                    s.detrend_data(**[{}, {"type": "constant"}][int(rng.integers(0, 2))])
                elif act == "fil":
                    wn = [3.0, (1.0, 2.0), 25.0][int(rng.integers(0, 3))]
                    s.filter_data(Wn=wn, order=4, btype="bandpass" if isinstance(wn, tuple) else "lowpass")
                elif act == "rb":
                    s.rollback()
                elif act == "add":
                    i = int(rng.integers(0, 3))
                    s.add_algorithms(classes[i](names[i]))
                elif act == "add2":
                    s.add_algorithms(classes[0]("a"), classes[1]("b"))
                elif act == "run":
                    s.run_by_name(str(rng.choice(names + ["zz"])))
                elif act == "runall":
                    s.run_all()
                elif act == "mpe":
                    n = str(rng.choice(names))
                    alg = getattr(s, "algorithms", {}).get(n)
                    s.mpe(n, **(mpe_args(alg) if alg is not None else {"sel_freq": [1.0]}))
                elif act == "save":
                    fd, path = tempfile.mkstemp(suffix=".pkl")
                    os.close(fd)
                    try:
                        gen.save_to_file(s, path)
                        s = gen.load_from_file(path)
                    finally:
                        os.remove(path)
            except Exception:
                pass
    finally:
        rec.uninstall()
    return rec.dump()


def documented_workflows():
    """the call sequences of the repository's documentation (docs/Example1, Example2, Example4) on the library's own
    synthetic five-storey record (`gen.example_data`, no download), with smaller model orders; returns the recorded traces"""
    from pyoma2 import algorithms as A
    from pyoma2.functions import gen
    from pyoma2.setup import MultiSetup_PreGER, SingleSetup

    from ..tracewrap import Recorder

    data, _ = gen.example_data()
    rec = Recorder().install()
    try:
        # Example 1 - getting started (verbatim)
        s = SingleSetup(data, fs=200)
        s.decimate_data(q=10)
        fdd = A.FDD(name="FDD", nxseg=1024, method_SD="cor")
        ssidat = A.SSIdat(name="SSIdat", br=30, ordmax=30)
        s.add_algorithms(fdd, ssidat)
        s.run_all()
        s.mpe("SSIdat", sel_freq=[0.89, 2.598, 4.095, 5.261, 6.0], order="find_min")
        # Example 2 - real dataset: filter, decimate, three algorithms run by name, extraction, save / load
        s2 = SingleSetup(data[:90000], fs=200)
        s2.filter_data(Wn=(0.1), order=8, btype="highpass")
        s2.decimate_data(q=5)
        fsdd = A.FSDD(name="FSDD", nxseg=1024, method_SD="cor")
        ssicov = A.SSIcov(name="SSIcov", br=20, ordmax=24)
        plscf = A.pLSCF(name="polymax", ordmax=12)
        fsdd.run_params = A.FSDD.RunParamCls(nxseg=2048, method_SD="per", pov=0.5)
        s2.add_algorithms(ssicov, fsdd, plscf)
        s2.run_by_name("SSIcov")
        s2.run_by_name("FSDD")
        s2.run_by_name("polymax")
        s2.mpe("SSIcov", sel_freq=[0.89, 2.6, 4.1], order=20)
        s2.mpe("FSDD", sel_freq=[0.89, 2.6, 4.1], MAClim=0.95)
        fd, path = tempfile.mkstemp(suffix=".pkl")
        os.close(fd)
        try:
            gen.save_to_file(s2, path)
            s2 = gen.load_from_file(path)
        finally:
            os.remove(path)
        # Example 4 - multi-setup PreGER: three setups sharing two reference sensors, decimate, one algorithm
        sets = [np.ascontiguousarray(data[0:60000, [0, 1, 2]]), np.ascontiguousarray(data[60000:120000, [0, 1, 3]]),
                np.ascontiguousarray(data[120000:180000, [0, 1, 4]])]
        msp = MultiSetup_PreGER(fs=200, ref_ind=[[0, 1], [0, 1], [0, 1]], datasets=sets)
        msp.decimate_data(q=2)
        ssims = A.SSIdat_MS(name="SSIdat", br=10, ordmax=12)
        msp.add_algorithms(ssims)
        msp.run_all()
        msp.mpe("SSIdat", sel_freq=[0.89, 2.6], order=12)
    finally:
        rec.uninstall()
    return rec.dump()


def _drive(args):
    return random_driver(*args)


def run(ctx, prop):
    """validate repository-test traces and random-driver traces; report through ctx; returns number validated"""
    scratch = ctx.scratch
    n_rand = (24 if ctx.tier == "quick" else 200)
    jobs = [(ctx.seed * 100 + i, "single" if i % 2 == 0 else "preger", 7 if ctx.tier == "quick" else 10) for i in range(n_rand)]
    with mp.get_context("fork").Pool(16) as pool:
        drv = pool.map(_drive, jobs)
    traces = [("driver", t) for ts in drv for t in ts]
    with mp.get_context("fork").Pool(1) as pool:                      # in a child: the recorder patches classes
        traces += [("documented_workflow", t) for t in pool.apply(documented_workflows)]
    if prop == "C14":
        traces += [("repo_test", t) for t in repo_test_traces(scratch)]
    work = [(i, t, scratch) for i, (_, t) in enumerate(traces)]
    with mp.get_context("fork").Pool(16) as pool:
        res = pool.map(validate_one, work)
    n_ok = 0
    for r, (src, t) in zip(res, traces):
        if "machinery" in r:
            raise core.MachineryFailure(f"trace validation ({src}): {r['machinery']}")
        ctx.count()
        if r.get("known") and prop == "C14":
            ctx.violation("single/T/after-decimate", "recorded trace: listed finding single/T/after-decimate", {"trace": True})
        if r["accepted"]:
            n_ok += 1
            ctx.traces += 1
            ctx.mark_nontrivial(("trace", src, json.dumps([e["ev"] for e in t["events"]])))
            if len(t["events"]) >= 5:
                ctx.sample({"recorded_trace": src, "kind": t["kind"], "events": [{k: e.get(k) for k in ("ev", "q", "alg", "raised")} for e in t["events"]]}, cap=6)
        else:
            ev = r["why"]["unexplained_event"] if isinstance(r["why"], dict) else None
            kind = ev["ev"] if ev else "unrepresentable"
            ctx.violation(f"trace/{t['kind']}/{kind}",
                          f"recorded execution ({src}, {t['kind']}) is not a behaviour of Setup.tla: {r['reached']} of {r['n']} events explained; "
                          f"{json.dumps(r['why'], default=str)[:1200]}",
                          {"trace": True, "source": src, "trace_json": t, "verdict": r})
    ctx.extra[f"traces_validated_{prop}"] = len(traces)
    ctx.extra[f"traces_accepted_{prop}"] = n_ok
    return len(traces)
