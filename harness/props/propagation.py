# -*- coding: utf-8 -*-
"""
C17, first sentence (delegated relation, weakest binding): reported frequency variance = sum over factor columns of the
squared directional derivative of that frequency with respect to the Hankel matrix.

The directional derivative is obtained by central finite differences of the library's own SSI_fast -> SSI_poles at two
step sizes that must agree with each other to 1e-3 (otherwise the case is not judged), under the property's
conditioning guards (relative singular-value gaps >= 1e-3, eigenvalue separation >= 0.05).
"""
from __future__ import annotations

import json
import multiprocessing as mp

import numpy as np

from .. import core
from ..core import Raw


def shapes(tier):
    out = []
    for l, r in ((1, 1), (2, 1), (2, 2), (3, 2), (3, 3)) if tier == "quick" else ((1, 1), (2, 1), (2, 2), (3, 1), (3, 2), (3, 3)):
        for br in ((3, 4) if tier == "quick" else (2, 3, 4, 5)):
            for m in (1, 2) if tier == "quick" else (1, 2, 3, 4):
                if 2 * m > (br + 1) * r or 2 * m > br * l:
                    continue
                for ncols in ((1, 3) if tier == "quick" else (1, 2, 5, 20)):
                    for kind in ("exact", "data"):
                        for cut in ((0, 1) if m >= 2 else (0,)):
                            out.append('[l |-> %d, r |-> %d, br |-> %d, m |-> %d, ncols |-> %d, kind |-> "%s", cut |-> %d]'
                                       % (l, r, br, m, ncols, kind, cut))
    return out


def system(rng, l, m):
    dt = 0.01
    f = np.sort(rng.uniform(3, 40, m))
    while m > 1 and np.min(np.diff(f)) < 3.0:
        f = np.sort(rng.uniform(3, 40, m))
    xi = rng.uniform(0.005, 0.05, m)
    lam = np.array([-x * 2 * np.pi * ff + 1j * 2 * np.pi * ff * np.sqrt(1 - x * x) for ff, x in zip(f, xi)])
    mu = np.exp(lam * dt)
    Phi = rng.standard_normal((l, m)) + 0.3j * rng.standard_normal((l, m))
    return dt, np.concatenate([mu, mu.conj()]), np.hstack([Phi, Phi.conj()])


def make_case(rng, sh):
    l, r, br, m = sh["l"], sh["r"], sh["br"], sh["m"]
    dt, mu, Phi = system(rng, l, m)
    if sh["kind"] == "exact":
        G = rng.standard_normal((2 * m, r)) + 1j * rng.standard_normal((2 * m, r))
        G[m:] = G[:m].conj()
        O = np.vstack([Phi * mu**i for i in range(br + 1)])
        Gam = np.hstack([(mu**j)[:, None] * G for j in range(br + 1)])
        H = (O @ Gam).real
        H = H + 1e-3 * np.abs(H).max() * rng.standard_normal(H.shape)
    else:
        from pyoma2.functions import ssi

        n = 3000
        c = rng.standard_normal(2 * m) + 1j * rng.standard_normal(2 * m)
        c[m:] = c[:m].conj()
        e = rng.standard_normal((n, 2 * m))
        # modal responses driven by noise (AR(1) per complex mode), mixed to the channels
        z = np.zeros((n, 2 * m), dtype=complex)
        for t in range(1, n):
            z[t] = mu * z[t - 1] + e[t]
        y = (z @ Phi.T).real + 0.01 * rng.standard_normal((n, l))
        H, _ = ssi.build_hank(Y=y.T, Yref=y.T[:r, :], br=br, method="cov_mm")
    return H, dt


def identify(H, br, ordmax, dt):
    from pyoma2.functions import ssi

    Obs, A, C, *_ = ssi.SSI_fast(H, br, ordmax)
    Fn, Xi, Phi, Lam, *_ = ssi.SSI_poles(Obs, A, C, ordmax, dt)
    return Fn, Lam


def check_case(col, t, seed):
    from pyoma2.functions import ssi

    sh, out = t["sh"], t["out"]
    rng = np.random.default_rng(seed)
    H, dt = make_case(rng, sh)
    rows, cols = out["rows"], out["cols"]
    br, ncols = sh["br"], sh["ncols"]
    if H.shape != (rows, cols):
        raise core.MachineryFailure(f"generated Hankel matrix has shape {H.shape}, specification says {(rows, cols)}")
    ordmax = out["ordmax"]          # below the rank of H when the shape is 'cut'
    sv = np.linalg.svd(H, compute_uv=False)
    gaps = -np.diff(sv[: ordmax + 1])
    if np.min(gaps / sv[: len(gaps)]) < 1e-3:
        col.bump("not_judged_singular_value_gap")
        return
    scale = np.abs(H).max()
    T = rng.standard_normal((rows * cols, ncols)) * scale * 1e-2
    Obs, A, C, Q1, Q2, Q3, Q4 = ssi.SSI_fast(H, br, ordmax, calc_unc=True, T=T, nb=ncols)
    Fn, Xi, Phi, Lam, Fc, Xc, Pc = ssi.SSI_poles(Obs, A, C, ordmax, dt, calc_unc=True, Q1=Q1, Q2=Q2, Q3=Q3, Q4=Q4)
    rep = {"propagation": True, "transition": t, "seed": seed}
    judged = 0
    for n in sorted(out["orders"]):
        lam_n = Lam[:n, n]
        if not np.isfinite(lam_n).all():
            continue
        sep = min(abs(lam_n[a] - lam_n[b]) / abs(lam_n[a]) for a in range(n) for b in range(n) if a != b) if n > 1 else 1.0
        if sep < 0.05:
            col.bump("not_judged_eigenvalue_separation")
            continue
        # directional derivatives by central differences at two step sizes
        D = {}
        ok = True
        for h in (1e-4, 1e-5):
            d = np.zeros((ncols, n))
            for k in range(ncols):
                # unvec: dH[R][C] = T[C * rows + R][k]  (Perturb!UnvecR / UnvecC)
                dH = np.zeros((rows, cols))
                pos = np.arange(rows * cols)
                dH[pos % rows, pos // rows] = T[:, k]
                hh = h * scale / np.abs(dH).max()
                Fp, Lp = identify(H + hh * dH, br, ordmax, dt)
                Fm, Lm = identify(H - hh * dH, br, ordmax, dt)
                for j in range(n):
                    jp = int(np.nanargmin(np.abs(Lp[:n, n] - lam_n[j])))
                    jm = int(np.nanargmin(np.abs(Lm[:n, n] - lam_n[j])))
                    d[k, j] = (Fp[jp, n] - Fm[jm, n]) / (2 * hh)
            D[h] = d
        v1 = (D[1e-4] ** 2).sum(axis=0)
        v2 = (D[1e-5] ** 2).sum(axis=0)
        for j in range(n):
            col.count()
            if not (abs(v1[j] - v2[j]) <= 1e-3 * max(v1[j], v2[j])):
                col.bump("not_judged_finite_differences_disagree")
                continue
            judged += 1
            rel = abs(Fc[j, n] - v2[j]) / max(v2[j], 1e-300)
            col.extra["max_rel_dev_e9"] = max(col.extra.get("max_rel_dev_e9", 0), int(rel * 1e9))
            if rel > 5e-3:
                col.violation("ssi.SSI_fast+SSI_poles/Fn_cov/not_first_order_propagation",
                              f"order {n} pole {j} (f = {Fn[j, n]:.4f} Hz): reported variance {Fc[j, n]:.6g}, sum over {ncols} factor "
                              f"column(s) of squared directional derivatives {v2[j]:.6g} (ratio {Fc[j, n] / v2[j]:.4g}); shape {sh}", rep)
                return
    if judged:
        col.mark_nontrivial((json.dumps(sh, sort_keys=True), seed))
        col.sample({"shape": sh, "orders_judged": sorted(out["orders"]), "columns": ncols, "seed": seed}, cap=1)


def _chunk(args):
    seed, lines = args
    col = core.Collector()
    for n, ln in enumerate(lines):
        t = json.loads(ln)
        core.guarded(col, lambda: check_case(col, t, seed * 1000 + n), "ssi.SSI_fast+SSI_poles/Fn_cov", f"shape {t['sh']}",
                     {"propagation": True, "transition": t, "seed": seed * 1000 + n})
        col.traces += 1
    return col


def run(ctx):
    shp = shapes(ctx.tier)
    mod, cfg = ctx.model("Perturb", "prop", {"Shapes": Raw("{" + ", ".join(shp) + "}")},
                         invariants=["UnvecInvertsVec", "VecCoversVector", "OrdersWithinRank"],
                         action_constraints=["Emit"], view="View")
    r = ctx.tlc(mod, cfg, raw=True)
    reps = 1 if ctx.tier == "quick" else 4
    lines = r.transitions * reps
    chunks = [(ctx.seed % 100000 + n, ch) for n, ch in enumerate(core.chunks(lines, max(1, len(lines) // 48)))]
    with mp.get_context("fork").Pool(16) as pool:
        for col in pool.map(_chunk, chunks):
            ctx.merge(col)
    ctx.assumptions.append("first sentence: the directional derivative is numerical (central differences of the library's own "
                           "identification, two step sizes agreeing to 1e-3); cases outside the property's guards are not judged")


def replay(ctx, body):
    col = core.Collector()
    check_case(col, body["transition"], body["seed"])
    for k, w, _ in col.viol:
        print(k, w)
    return col.nviol == 0
