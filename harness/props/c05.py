# -*- coding: utf-8 -*-
"""
C05 - pLSCF recovers an exactly rational spectrum and reports its poles.

spec    : PolyId.tla - OnePerRoot, NaNElsewhere, SlotsGrow, OrderWithinMax; prediction: normalisation constraint, the
          column of the order-n model, pole slots per column, how many poles that column reports (one per root with
          non-positive real part under ln(z)/dt) and how many it blanks
binding : direction A.  interp builds A(z) = T diag(p_c(z)) S from the specification's root composition (roots from a
          catalogue of discrete poles: stable / unstable conjugate pairs and real roots), a seeded B(z), normalises under
          the library's constraint and evaluates B A^-1 on the library's grid; plscf.pLSCF -> pLSCF_poles and the pLSCF
          class (spectrum injected through fdd.SD_est patched in the harness process only) are run; coefficients must
          be reproduced (1e-8 relative) and the reported eigenvalues must be exactly the stable roots, once each.
"""
from __future__ import annotations

import contextlib
import json
import multiprocessing as mp

import numpy as np

from .. import core
from ..core import Raw

DTS = {1: 0.01, 2: 0.125}
NFS = {1: lambda n: 4 * (n + 1), 2: lambda n: 16 * (n + 1) + 3}
# catalogue of discrete roots (radius, angle); stable: |z| < 1
ST_PAIRS = [(0.97, 0.35), (0.90, 1.10), (0.985, 2.20), (0.93, 0.70), (0.95, 1.75), (0.88, 2.70), (0.99, 0.15), (0.92, 1.45)]
UN_PAIRS = [(1.04, 0.55), (1.10, 1.60), (1.02, 2.45), (1.07, 0.95)]
ST_REAL = [0.80, 0.60, 0.92, 0.45, 0.70, 0.85, 0.50, 0.65]
UN_REAL = [1.15, 1.30, 1.08, 1.22]


def build_system(sys_, seed):
    n, nch, nref, sgn = sys_["n"], sys_["nch"], sys_["nref"], sys_["sign"]
    rng = np.random.default_rng(seed)
    roots_all = []
    polys = []
    used = {"sp": 0, "up": 0, "sr": 0, "ur": 0}
    for c in sys_["polys"]:
        roots = []
        for _ in range(c["sp"]):
            r, a = ST_PAIRS[used["sp"] % len(ST_PAIRS)]
            r = r * (1 - 0.004 * (used["sp"] // len(ST_PAIRS)))
            used["sp"] += 1
            roots += [r * np.exp(1j * a), r * np.exp(-1j * a)]
        for _ in range(c["up"]):
            r, a = UN_PAIRS[used["up"] % len(UN_PAIRS)]
            r = r * (1 + 0.004 * (used["up"] // len(UN_PAIRS)))
            used["up"] += 1
            roots += [r * np.exp(1j * a), r * np.exp(-1j * a)]
        for _ in range(c["sr"]):
            roots.append(ST_REAL[used["sr"] % len(ST_REAL)] * (1 - 0.01 * (used["sr"] // len(ST_REAL))) + 0j)
            used["sr"] += 1
        for _ in range(c["ur"]):
            roots.append(UN_REAL[used["ur"] % len(UN_REAL)] * (1 + 0.01 * (used["ur"] // len(UN_REAL))) + 0j)
            used["ur"] += 1
        p = np.real(np.poly(roots))[::-1]      # ascending powers: p[j] z^j, degree n, monic
        polys.append(p)
        roots_all += roots
    T = rng.standard_normal((nch, nch)) + 2 * np.eye(nch)
    S = rng.standard_normal((nch, nch)) + 2 * np.eye(nch)
    A = np.array([T @ np.diag([polys[c][j] for c in range(nch)]) @ S for j in range(n + 1)])   # A_j, j = 0..n
    B = rng.standard_normal((n + 1, nref, nch))
    R = np.linalg.inv(A[0] if sgn == -1 else A[n])          # library constraint: A_0 = I (LO, sign -1) / A_n = I (HI, sign +1)
    A = np.array([a @ R for a in A])
    B = np.array([b @ R for b in B])
    return A, B, np.array(roots_all)


def spectrum(A, B, dt, nf, sgn):
    fs = 1 / dt
    freq = np.linspace(0.0, fs / 2, nf)
    Om = np.exp(sgn * 1j * 2 * np.pi * freq * dt)
    n = A.shape[0] - 1
    nref, nch = B.shape[1], B.shape[2]
    Sy = np.zeros((nref, nch, nf), dtype=complex)
    for k, z in enumerate(Om):
        Az = sum(A[j] * z**j for j in range(n + 1))
        Bz = sum(B[j] * z**j for j in range(n + 1))
        Sy[:, :, k] = Bz @ np.linalg.inv(Az)
    return freq, Sy


@contextlib.contextmanager
def injected_spectrum(freq, Sy):
    from pyoma2.functions import fdd as F

    saved = F.SD_est
    F.SD_est = lambda *a, **k: (freq.copy(), Sy.copy())
    try:
        yield
    finally:
        F.SD_est = saved


def check_case(col, t, seed):
    from pyoma2 import algorithms as Alg
    from pyoma2.functions import plscf

    s, out = t["sys"], core.seqify(t["out"])
    n, nch, nref, sgn = s["n"], s["nch"], s["nref"], s["sign"]
    dt = DTS[s["dt"]]
    nf = NFS[s["nf"]](n)
    rep = {"transition": t, "seed": seed}
    A, B, roots = build_system(s, seed)
    if np.linalg.cond(A[n] if sgn == -1 else A[0]) > 1e6:
        col.bump("skipped_ill_conditioned")
        return
    freq, Sy = spectrum(A, B, dt, nf, sgn)
    col.count()
    try:
        Ad, Bn = plscf.pLSCF(Sy, dt, s["ordmax"], sgn_basf=sgn)
    except np.linalg.LinAlgError:
        # exactly singular normal equations: over-parameterised orders on an exactly rational spectrum, or a pair that is
        # not identifiable (fewer reference rows than channels) - infinite conditioning, not judged
        col.bump("not_judged_singular_above_true_order" if s["ordmax"] > n else "not_judged_ill_conditioned_identification")
        return
    site = f"plscf.pLSCF[sign {sgn:+d}]"
    if len(Ad) != s["ordmax"] or len(Bn) != s["ordmax"]:
        col.violation(f"{site}/orders", f"{site}: {len(Ad)} denominator / {len(Bn)} numerator models returned for ordmax = {s['ordmax']}", rep)
        return
    got = np.asarray(Ad[n - 1])
    if got.shape != A.shape:
        col.violation(f"{site}/coefficient_shape", f"{site}: order-{n} denominator has shape {got.shape}, expected {A.shape}", rep)
        return
    ident = got[0] if out["constraint"] == "A0_identity" else got[n]
    if not np.allclose(ident, np.eye(nch), atol=1e-12):
        col.violation(f"{site}/constraint", f"{site}: normalisation {out['constraint']} not met", rep)
        return
    err = np.abs(got - A).max() / np.abs(A).max()
    # conditioning of this identification problem, measured: relative change of the coefficients under a 1e-10 relative
    # perturbation of the spectrum ("well-conditioned pair" of the property); ill-conditioned cases are not judged
    prng = np.random.default_rng(seed + 17)
    Syp = Sy * (1 + 1e-10 * (prng.standard_normal(Sy.shape) + 1j * prng.standard_normal(Sy.shape)))
    try:
        Adp, _ = plscf.pLSCF(Syp, dt, n, sgn_basf=sgn)
        kappa = np.abs(np.asarray(Adp[n - 1]) - got).max() / np.abs(A).max() / 1e-10
    except np.linalg.LinAlgError:
        kappa = np.inf
    if not kappa < 1e4:
        col.bump("not_judged_ill_conditioned_identification")
        return
    col.extra["max_coeff_err_e15"] = max(col.extra.get("max_coeff_err_e15", 0), int(err * 1e15))
    col.extra[f"max_coeff_err_e15_nf{s['nf']}"] = max(col.extra.get(f"max_coeff_err_e15_nf{s['nf']}", 0), int(err * 1e15))
    # calibration on the pinned tree: err / kappa <= 2e-10 over all shapes (the Schur complement of the normal equations
    # loses about six digits); the allowance is 100 x that
    if err > 2e-8 * max(kappa, 1.0):
        col.violation(f"{site}/coefficients", f"{site}: order-{n} denominator coefficients differ from the generating ones by {err:.2e} "
                      f"(relative, measured conditioning {kappa:.1e}); n={n} Nch={nch} Nref={nref} lines={nf} dt={dt}", rep)
        return
    if err > 1e-9:
        col.bump("poles_not_judged_coefficients_only_to_conditioning")
        return
    above_singular = False
    try:
        Fn, Xi, Phi, Lam = plscf.pLSCF_poles(Ad, Bn, dt, "per", 2 * (nf - 1))
    except np.linalg.LinAlgError:
        if not s["ordmax"] > n:
            raise
        # an over-parameterised order of an exactly rational spectrum has an exactly singular leading coefficient
        # (infinite conditioning, outside the property); the order-n column is still judged, from the orders up to n
        above_singular = True
        col.bump("orders_above_true_order_singular_column_n_judged_alone")
        Fn, Xi, Phi, Lam = plscf.pLSCF_poles(Ad[:n], Bn[:n], dt, "per", 2 * (nf - 1))
    try:
        Fn, Xi, Lam = np.asarray(Fn, dtype=float), np.asarray(Xi, dtype=float), np.asarray(Lam)
    except (ValueError, TypeError):
        Fn = np.zeros(0)
    if Fn.ndim != 2 or Xi.shape != Fn.shape or Lam.shape != Fn.shape or np.asarray(Phi).ndim != 3 or np.shape(Phi)[:2] != Fn.shape:
        col.violation("plscf.pLSCF_poles/table_shape", f"pLSCF_poles: tables are not rectangular (orders x poles) arrays of one shape: "
                      f"{np.shape(Fn)}, {np.shape(Xi)}, {np.shape(Lam)}, {np.shape(Phi)}", rep)
        return
    # layout: slots per column
    if above_singular:
        if Fn.shape[1] != n or Fn.shape[0] < n * nch:
            col.violation("plscf.pLSCF_poles/table_shape", f"pLSCF_poles: table shape {Fn.shape}, expected at least {(n * nch, n)}", rep)
            return
    elif Fn.shape[1] != s["ordmax"] or Fn.shape[0] < out["rows"]:
        col.violation("plscf.pLSCF_poles/table_shape", f"pLSCF_poles: table shape {Fn.shape}, expected at least {(out['rows'], s['ordmax'])}", rep)
        return
    c = out["column"]
    lam_true = np.log(roots) / dt
    stable = lam_true[np.real(lam_true) <= 0]
    lam_got = Lam[:, c][np.isfinite(Lam[:, c])]
    bad = None
    lam_got = lam_got[np.isfinite(Fn[:, c][np.isfinite(Lam[:, c])])] if False else Lam[:, c][np.isfinite(Fn[:, c])]
    if len(lam_got) != out["reported"]:
        bad = ("pole_count", f"order {n}: {len(lam_got)} poles reported, {out['reported']} roots have non-positive real part "
                             f"({out['blanked']} must be blanked)")
    else:
        rem = list(stable)
        for l in lam_got:
            d = [abs(l - x) / abs(x) for x in rem]
            if not d or min(d) > 1e-6:
                bad = ("pole_value", f"reported eigenvalue {l} is not a root of det A(z) mapped by ln(z)/dt (closest relative distance "
                                     f"{min(d) if d else None})")
                break
            rem.pop(int(np.argmin(d)))
    if bad is None:
        fin = np.isfinite(Fn[:, c])
        f_exp = np.abs(Lam[fin, c]) / (2 * np.pi)
        x_exp = -np.real(Lam[fin, c]) / np.abs(Lam[fin, c])
        if not (np.allclose(Fn[fin, c], f_exp, rtol=1e-12) and np.allclose(Xi[fin, c], x_exp, rtol=1e-12, atol=1e-15)):
            bad = ("fn_xi_map", "Fn / Xi are not |lambda| / 2 pi and -Re(lambda) / |lambda|")
        elif np.isfinite(Fn[~fin, c]).any() or np.isfinite(Xi[~fin, c]).any() or np.isfinite(np.asarray(Phi)[~fin, c, :]).any():
            bad = ("nan_pattern", "a blanked pole is not blanked in every table")
    if bad:
        col.violation(f"plscf.pLSCF_poles/{bad[0]}", f"pLSCF_poles (sign {sgn:+d}): {bad[1]}; n={n} Nch={nch} Nref={nref} lines={nf} dt={dt} "
                      f"polys={s['polys']}", rep)
        return
    # through the class (periodogram convention: sign -1), spectrum injected
    if sgn == -1 and nref >= 2 and not above_singular:
        alg = Alg.pLSCF(name="p", ordmax=s["ordmax"], nxseg=2 * (nf - 1), method_SD="per",
                        hc=dict(conj=False, xi_max=1.1, mpc_lim=0.0, mpd_lim=10.0))
        alg._set_data(np.zeros((8, nch)), fs=1 / dt)
        with injected_spectrum(freq, Sy):
            res = alg.run()
        col.count()
        if not all(np.array_equal(np.asarray(a), np.asarray(b)) for a, b in zip(res.Ad, Ad)):
            col.violation("pLSCF.run/coefficients", "pLSCF.run: Ad differs from plscf.pLSCF on the same spectrum", rep)
            return
        fr = np.asarray(res.Fn_poles)[:, c]
        keep = np.isfinite(fr)
        exp_keep = np.isfinite(Fn[:, c]) & (Xi[:, c] > 0)
        if not np.array_equal(keep, exp_keep) or not np.array_equal(fr[keep], Fn[keep, c]):
            col.violation("pLSCF.run/poles", f"pLSCF.run: order-{n} column is not the stable roots with positive damping", rep)
            return
    col.bump("fully_judged")
    if out["blanked"] > 0 and out["reported"] > 0:
        col.mark_nontrivial(json.dumps(s, sort_keys=True))
        col.sample({"system": s, "prediction": out}, cap=1)


def _chunk(args):
    seed, lines = args
    col = core.Collector()
    for k, ln in enumerate(lines):
        t = json.loads(ln)
        core.guarded(col, lambda: check_case(col, t, seed + k), "plscf", f"system {t['sys']}", {"transition": t, "seed": seed + k})
        col.traces += 1
    return col


def run(ctx):
    ctx.rule = ("every (order, channels, reference rows, basis sign, ordmax, dt, line count, root composition per channel polynomial) "
                "case of PolyId.tla (seeded sample above the cap) identified by pLSCF / pLSCF_poles / the pLSCF class; non-trivial: "
                "systems with at least one reported and one blanked root; distinct by system")
    ctx.trusted = ["TLC", "numpy.poly / numpy.linalg for the construction of A(z), B(z) and the evaluation of B A^-1"]
    ctx.assumptions = ["'positive real part' is taken under the library's literal map lambda = ln(z) / dt",
                       "cases whose normalising coefficient matrix has condition number > 1e6 are skipped and counted",
                       "class path: periodogram convention only (the correlogram path applies a window correction to the poles)"]
    quick = ctx.tier == "quick"
    # (the number of root compositions grows like |Comp(n)|^Nch: sizes are chosen to keep each instance below ~10^6 states)
    consts = {"Orders": {1, 2, 3} if quick else {1, 2, 3, 4}, "Chans": {2, 3},
              "Refs": {1, 2} if quick else {1, 2, 3, 5}, "Signs": {-1, 1}, "Extra": {0, 2}, "DtIds": {1, 2}, "NfIds": {1, 2}}
    mod, cfg = ctx.model("PolyId", "rational", consts, invariants=["OnePerRoot", "NaNElsewhere", "SlotsGrow", "OrderWithinMax"],
                         action_constraints=["Emit"], view="View")
    r = ctx.tlc(mod, cfg, raw=True)
    if len(r.transitions) != r.generated - r.initial:
        raise core.MachineryFailure("emitted transition count differs from TLC's")
    lines = sorted(r.transitions)
    cap = 4000 if quick else 40000
    ctx.extra["enumerated"] = len(lines)
    if len(lines) > cap:
        rng = np.random.default_rng(ctx.seed)
        lines = [lines[i] for i in sorted(rng.choice(len(lines), size=cap, replace=False))]
    ctx.extra["replayed"] = len(lines)
    chunks = [(ctx.seed * 3 + 1000 * n, ch) for n, ch in enumerate(core.chunks(lines, max(1, len(lines) // 64)))]
    with mp.get_context("fork").Pool(16) as pool:
        for col in pool.map(_chunk, chunks):
            ctx.merge(col)
    if ctx.violations == 0 and ctx.extra.get("fully_judged", 0) < 0.25 * len(lines):
        raise core.MachineryFailure(f"inconclusive: only {ctx.extra.get('fully_judged', 0)} of {len(lines)} cases were well enough "
                                    "conditioned to be judged")
    if not quick:
        # orders 6 and 8 on a thinner grid of the other parameters
        consts2 = {"Orders": {6, 8}, "Chans": {2}, "Refs": {2, 3}, "Signs": {-1, 1}, "Extra": {0}, "DtIds": {1}, "NfIds": {2}}
        mod, cfg = ctx.model("PolyId", "rational_hi", consts2, invariants=["OnePerRoot", "NaNElsewhere", "SlotsGrow"],
                             action_constraints=["Emit"], view="View")
        r = ctx.tlc(mod, cfg, raw=True)
        lines = sorted(r.transitions)
        rng = np.random.default_rng(ctx.seed + 1)
        lines = [lines[i] for i in sorted(rng.choice(len(lines), size=min(3000, len(lines)), replace=False))]
        chunks = [(ctx.seed * 5 + 1000 * n, ch) for n, ch in enumerate(core.chunks(lines, max(1, len(lines) // 64)))]
        with mp.get_context("fork").Pool(16) as pool:
            for col in pool.map(_chunk, chunks):
                ctx.merge(col)
    if not quick:
        consts3 = {"Orders": {1, 2}, "Chans": {5}, "Refs": {3, 5}, "Signs": {-1, 1}, "Extra": {0}, "DtIds": {1}, "NfIds": {2}}
        mod, cfg = ctx.model("PolyId", "rational_5ch", consts3, invariants=["OnePerRoot", "NaNElsewhere", "SlotsGrow"],
                             action_constraints=["Emit"], view="View")
        r = ctx.tlc(mod, cfg, raw=True)
        lines = sorted(r.transitions)
        rng = np.random.default_rng(ctx.seed + 2)
        lines = [lines[i] for i in sorted(rng.choice(len(lines), size=min(3000, len(lines)), replace=False))]
        chunks = [(ctx.seed * 9 + 1000 * n, ch) for n, ch in enumerate(core.chunks(lines, max(1, len(lines) // 64)))]
        with mp.get_context("fork").Pool(16) as pool:
            for col in pool.map(_chunk, chunks):
                ctx.merge(col)
    ctx.exhaustive = False


def replay(ctx, body):
    col = core.Collector()
    check_case(col, body["transition"], body["seed"])
    for k, w, _ in col.viol:
        print(k, w)
    return col.nviol == 0
