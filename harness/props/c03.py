# -*- coding: utf-8 -*-
"""
C03 - PreGER multi-setup SSI identifies the global system; the reference / roving split keeps channels intact.

spec    : Split.tla (+ Layout.tla) for the split - Partition, RefListed, MovAscending - exhaustive over every
          channel count <= 6 and every ordered reference subset;  Ident.tla pipeline SSI_MS for the
          identification clause (see ident.py)
binding : direction A.  Split: sample t of channel c of dataset i carries the integer 10^6 i + 10^3 c + t, so the
          projection reads back which channel every output row is and whether its samples are intact - through
          gen.pre_multisetup and through MultiSetup_PreGER(...).data after construction and after each
          preprocessing call.
"""
from __future__ import annotations

import json
import multiprocessing as mp

import numpy as np

from .. import core


def tagged(i, n, N=40):
    t = np.arange(N, dtype=float)[:, None]
    c = np.arange(n, dtype=float)[None, :]
    return 1e6 * (i + 1) + 1e3 * c + t


def read_rows(block):
    """-> list of (dataset, channel) per row, or None when a row's samples are not intact"""
    rows = []
    for r in np.atleast_2d(block):
        i = int(r[0] // 1e6)
        c = int((r[0] % 1e6) // 1e3)
        if not np.array_equal(r, 1e6 * i + 1e3 * c + np.arange(len(r), dtype=float)):
            return None
        rows.append((i - 1, c))
    return rows


def check_split(col, t):
    from pyoma2.functions import gen
    from pyoma2.setup import MultiSetup_PreGER

    lay, out = t["lay"], t["out"]
    n = len(lay["chan"])
    ref0 = [r - 1 for r in lay["ref"]]
    exp_ref = [(0, c - 1) for c in out["ref"]]
    exp_mov = [(0, c - 1) for c in out["mov"]]
    rep = {"split": True, "transition": t}

    def judge(Y, site, ds=0):
        y = Y[ds]
        for key, exp in (("ref", exp_ref), ("mov", exp_mov)):
            exp = [(ds, c) for _, c in exp]
            blk = np.asarray(y[key])
            if blk.shape[0] != len(exp):
                col.violation(f"{site}/{key}_count", f"{site}: {blk.shape[0]} {key} rows, expected {len(exp)}; n={n} ref={ref0}", rep)
                return
            if len(exp) == 0:
                continue
            rows = read_rows(blk)
            if rows is None:
                col.violation(f"{site}/{key}_samples", f"{site}: samples of a {key} row are not intact; n={n} ref={ref0}", rep)
            elif rows != exp:
                col.violation(f"{site}/{key}_order", f"{site}: {key} rows are channels {[c for _, c in rows]}, expected {[c for _, c in exp]}; n={n} ref={ref0}", rep)

    d0 = tagged(0, n)
    col.count()
    judge(gen.pre_multisetup([d0.copy()], [list(ref0)]), "gen.pre_multisetup")
    # two datasets, the second with the mirrored reference list (same count), through the setup class
    ref1 = [n - 1 - r for r in ref0]
    d1 = tagged(1, n, N=44)
    col.count()
    ms = MultiSetup_PreGER(fs=10.0, ref_ind=[list(ref0), list(ref1)], datasets=[d0.copy(), d1.copy()])
    judge(ms.data, "MultiSetup_PreGER.__init__", 0)
    mov1 = [c for c in range(n) if c not in ref1]
    rows_ref, rows_mov = read_rows(ms.data[1]["ref"]), (read_rows(ms.data[1]["mov"]) if mov1 else [])
    if rows_ref != [(1, c) for c in ref1] or rows_mov != [(1, c) for c in mov1]:
        col.violation("MultiSetup_PreGER.__init__/second_dataset", f"second dataset split wrongly: ref rows {rows_ref} mov rows {rows_mov}; n={n} ref={ref1}", rep)
    # after rollback the split is re-applied to the stored copy
    ms.rollback()
    col.count()
    judge(ms.data, "MultiSetup_PreGER.rollback", 0)
    if len(out["mov"]) >= 2 and lay["ref"] != sorted(lay["ref"]):
        col.mark_nontrivial((n, tuple(lay["ref"])))
        col.sample({"channels": n, "reference_list": lay["ref"], "expected_split": out}, cap=2)


def _chunk(lines):
    col = core.Collector()
    for ln in lines:
        t = json.loads(ln)
        core.guarded(col, lambda: check_split(col, t), "gen.pre_multisetup", f"case {t}"[:600], {"split": True, "transition": t})
        col.traces += 1
    return col


def run_split(ctx):
    mod, cfg = ctx.model("Split", "split", {"MaxCh": 6}, invariants=["Partition", "RefListed", "MovAscending"],
                         action_constraints=["Emit"], view="View")
    r = ctx.tlc(mod, cfg, raw=True)
    if len(r.transitions) != r.generated - r.initial:
        raise core.MachineryFailure("emitted transition count differs from TLC's")
    chunks = list(core.chunks(r.transitions, max(1, len(r.transitions) // 32)))
    with mp.get_context("fork").Pool(16) as pool:
        for col in pool.map(_chunk, chunks):
            ctx.merge(col)
    ctx.extra["split_cases"] = len(r.transitions)


def run(ctx):
    ctx.rule = ("split: every channel count <= 6 and every ordered reference subset (exhaustive) through pre_multisetup "
                "and MultiSetup_PreGER (construction, rollback); identification: see ident part. Non-trivial split "
                "cases: >= 2 roving channels and an unsorted reference list; distinct by (n, reference list)")
    ctx.trusted = ["TLC", "integer-tagged samples (projection reads the channel id from the data)"]
    run_split(ctx)
    try:
        from . import ident
    except ImportError:
        ident = None
    if ident is not None:
        ident.run_c03(ctx)
    ctx.exhaustive = True


def replay(ctx, body):
    col = core.Collector()
    if body.get("split"):
        check_split(col, body["transition"])
    else:
        from . import ident

        return ident.replay(ctx, body)
    for k, w, _ in col.viol:
        print(k, w)
    return col.nviol == 0
