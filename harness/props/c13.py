# -*- coding: utf-8 -*-
"""
C13 - spectral matrix estimation: grid, pairing, scaling and phase convention.

spec    : Spectra.tla, focus "est" - SegmentsInsideRecord, SegmentsCoverStep, NoMoreSegmentFits, GridReachesNyquist,
          OnlyThePairedEntry; predictions: exact rational grid, shape, segment table, which entry is non-zero for a pair
          of unit impulses, gain exponent 2, conjugation sign
binding : direction A against fdd.SD_est (and FDD / pLSCF .result.{freq, Sy} through setups):
          grid and shape exactly; pairing and segmentation by unit impulses (entry (i, j) non-zero iff channel i and
          reference j carry impulses sharing a segment of the specification's segment table); scaling / additivity on
          seeded data; Hermitian positive semidefinite for the periodogram with identical arguments; Welch equivalence
          against an independent numpy implementation driven by the specification's segment table (lines >= 2);
          conjugation by delayed copies and by sinusoids with Gaussian-integer amplitudes.
          Not checked (no exact abstract counterpart, see DESIGN.md §6): "integrates to the mean square".
"""
from __future__ import annotations

import itertools
import json
import multiprocessing as mp
from fractions import Fraction

import numpy as np

from .. import core
from ..core import Raw


def est_cfgs(tier):
    out = []
    # 68 = 4 x 17 and 208 = 16 x 13 have a prime factor > 11 (not 'FFT-friendly' lengths)
    nx = (16, 64, 68) if tier == "quick" else (16, 64, 68, 208, 256)
    for nall, nref in ((1, 1), (2, 1), (3, 2)) if tier == "quick" else ((1, 1), (2, 1), (2, 2), (3, 2), (4, 3), (4, 4)):
        for nxseg in nx:
            for pov4 in (0, 1, 2, 3):
                ovl = nxseg * pov4 // 4
                for method in ("per", "cor"):
                    if method == "cor" and pov4 not in (0, 2):
                        continue
                    for fsn, fsd in ((100, 1), (25, 2)):
                        n = 3 * nxseg + nxseg // 4 + 3
                        pos = sorted({2, nxseg // 2 + 1, nxseg + 3, 2 * nxseg + 2, n - 2})
                        for pi, pj in itertools.product(pos, pos):
                            for ci, rj in {(0, 0), (nall - 1, nref - 1), (nall - 1, 0)}:
                                out.append("[nall |-> %d, nref |-> %d, n |-> %d, nxseg |-> %d, ovl |-> %d, method |-> \"%s\", "
                                           "fsn |-> %d, fsd |-> %d, ci |-> %d, pi |-> %d, rj |-> %d, pj |-> %d]"
                                           % (nall, nref, n, nxseg, ovl, method, fsn, fsd, ci, pi, rj, pj))
    return out


def sd(Yall, Yref, c):
    from pyoma2.functions import fdd

    dt = c["fsd"] / c["fsn"]
    return fdd.SD_est(Yall, Yref, dt, c["nxseg"], method=c["method"], pov=c["ovl"] / c["nxseg"])


def welch_reference(Yall, Yref, c, segs):
    """mean over the specification's segments of Hann-windowed, mean-removed, one-sided, density-scaled periodograms"""
    fs = c["fsn"] / c["fsd"]
    n = c["nxseg"]
    w = 0.5 - 0.5 * np.cos(2 * np.pi * np.arange(n) / n)          # periodic Hann
    acc = 0
    for s, e in segs:
        A = Yall[:, s:e + 1]
        B = Yref[:, s:e + 1]
        A = (A - A.mean(axis=1, keepdims=True)) * w
        B = (B - B.mean(axis=1, keepdims=True)) * w
        FA, FB = np.fft.rfft(A, axis=1), np.fft.rfft(B, axis=1)
        P = np.conj(FA)[:, None, :] * FB[None, :, :] / (fs * (w * w).sum())
        P[..., 1:-1] *= 2
        acc = acc + P
    return acc / len(segs)


def check_impulse(col, t):
    c, out = t["cfg"], t["out"]
    rep = {"transition": t}
    site = f"fdd.SD_est[{c['method']}]"
    Yall = np.zeros((c["nall"], c["n"]))
    Yref = np.zeros((c["nref"], c["n"]))
    Yall[c["ci"], c["pi"]] = 1.0
    Yref[c["rj"], c["pj"]] = 1.0
    col.count()
    freq, Sy = sd(Yall, Yref, c)
    freq, Sy = np.asarray(freq), np.asarray(Sy)
    if list(Sy.shape) != list(out["shape"]):
        col.violation(f"{site}/shape", f"{site}: Sy has shape {Sy.shape}, expected {out['shape']}; {c}", rep)
        return
    step = Fraction(*out["step"])
    exp_f = np.array([float(k * step) for k in range(out["shape"][2])])
    if freq.shape != exp_f.shape or not np.allclose(freq, exp_f, rtol=1e-12, atol=0):
        col.violation(f"{site}/grid", f"{site}: frequency grid {freq[:3]}..{freq[-1]} expected step {float(step)} up to "
                      f"{float(Fraction(*out['last']))}; {c}", rep)
        return
    for i in range(c["nall"]):
        for j in range(c["nref"]):
            nz = bool(np.abs(Sy[i, j, :]).max() > 1e-30)
            exp = bool(out["nonzero"][i][j])
            if nz != exp:
                kind = "pairing" if (i, j) != (c["ci"], c["rj"]) else "segmentation"
                col.violation(f"{site}/{kind}", f"{site}: entry ({i},{j}) is {'non-' if nz else ''}zero for impulses in channel {c['ci']}@"
                              f"{c['pi']} and reference {c['rj']}@{c['pj']}; segments {out['segs']}; {c}", rep)
                return
    if out["nonzero"][c["ci"]][c["rj"]] is False and any(s[0] <= c["pi"] <= s[1] for s in out["segs"]):
        col.mark_nontrivial(json.dumps(c, sort_keys=True))
    elif out["nonzero"][c["ci"]][c["rj"]] and c["pi"] != c["pj"]:
        col.mark_nontrivial(json.dumps(c, sort_keys=True))


def check_config(col, t, rng):
    """relations that do not depend on the impulse fields: once per (shape, nxseg, overlap, method, fs)"""
    c, out = t["cfg"], t["out"]
    rep = {"transition": t, "config_level": True}
    site = f"fdd.SD_est[{c['method']}]"
    n, nall, nref = c["n"], c["nall"], c["nref"]
    X1, X2 = rng.standard_normal((nall, n)), rng.standard_normal((nall, n))
    R1, R2 = rng.standard_normal((nref, n)), rng.standard_normal((nref, n))
    col.count()
    f11, S11 = sd(X1, R1, c)
    if list(np.asarray(S11).shape) != list(out["shape"]) or len(f11) != out["shape"][2]:
        col.violation(f"{site}/shape", f"{site}: Sy has shape {np.asarray(S11).shape} / {len(f11)} lines, expected {out['shape']}; {c}", rep)
        return
    sc = np.abs(S11).max()
    # scaling with the square of a common gain, bilinearity
    for g in (-3.0, 1e-3, 250.0):
        _, Sg = sd(g * X1, g * R1, c)
        if not np.allclose(Sg, g ** out["gain_exponent"] * S11, rtol=1e-9, atol=1e-12 * sc * g * g):
            col.violation(f"{site}/gain_scaling", f"{site}: Sy(g x, g y) != g^2 Sy(x, y) for g = {g}; {c}", rep)
            return
    if c["method"] == "per" or True:
        _, S21 = sd(X2, R1, c)
        _, S12 = sd(X1, R2, c)
        _, Sa = sd(2 * X1 - 3 * X2, R1, c)
        _, Sb = sd(X1, 0.5 * R1 + 4 * R2, c)
        if not (np.allclose(Sa, 2 * S11 - 3 * S21, rtol=1e-8, atol=1e-10 * sc)
                and np.allclose(Sb, 0.5 * S11 + 4 * S12, rtol=1e-8, atol=1e-10 * sc)):
            col.violation(f"{site}/not_bilinear", f"{site}: not bilinear in (data, reference data); {c}", rep)
            return
    if c["method"] == "per":
        # identical arguments: Hermitian positive semidefinite at every line
        _, S = sd(X1, X1, c)
        for k in range(S.shape[2]):
            M = S[:, :, k]
            if not np.allclose(M, M.conj().T, rtol=1e-10, atol=1e-14 * sc):
                col.violation(f"{site}/not_hermitian", f"{site}: Sy(x, x) not Hermitian at line {k}; {c}", rep)
                return
            if np.linalg.eigvalsh((M + M.conj().T) / 2).min() < -1e-10 * max(np.abs(M).max(), 1e-300):
                col.violation(f"{site}/not_psd", f"{site}: Sy(x, x) not positive semidefinite at line {k}; {c}", rep)
                return
        # Welch equivalence, lines >= 2
        ref = welch_reference(X1, R1, c, out["segs"])
        if not np.allclose(S11[..., 2:], ref[..., 2:], rtol=1e-9, atol=1e-11 * sc):
            col.violation(f"{site}/not_welch", f"{site}: differs from the averaged, Hann-windowed, one-sided density estimate over the "
                          f"segments {out['segs']}; {c}", rep)
            return
    # conjugation: a scaled, delayed copy of a broadband channel
    if c["nxseg"] >= 64:
        fs = c["fsn"] / c["fsd"]
        nn = 40 * c["nxseg"]
        x = rng.standard_normal(nn + 8)
        for gain, d in ((2.5, 1), (-0.3, c["nxseg"] // 64)):
            if d == 0:
                continue
            y = gain * np.roll(x, d)
            A = np.vstack([x, y])[:, 8:]
            _, S = sd(A, A, dict(c, n=nn))
            f = np.arange(S.shape[2]) * fs / c["nxseg"]
            if c["method"] == "per":
                # integrates over frequency to the mean square (40 segments of white noise: estimator scatter about 4 %,
                # segment-mean removal at most 2 %; the allowance of 25 % separates every wrong density scaling)
                for i in range(2):
                    integ = float(np.real(S[i, i, :]).sum() * fs / c["nxseg"])
                    ms = float(np.mean(A[i] ** 2))
                    if not abs(integ - ms) <= 0.25 * ms:
                        col.violation(f"{site}/integral_mean_square", f"{site}: the auto spectrum of channel {i} integrates to {integ:.4g}, "
                                      f"the mean square of the record is {ms:.4g}; {c}", rep)
                        return
            ratio = S[0, 1, :] / S[0, 0, :]
            exp = gain * np.exp(out["conj_sign"] * 2j * np.pi * f * d / fs)
            err = np.abs(ratio - exp)[2:-2] / abs(gain)
            err_conj = np.abs(ratio - exp.conj())[2:-2] / abs(gain)
            bad = (err.max() > 0.05) if c["method"] == "per" else (np.median(err) > 0.30)
            if bad:
                flipped = np.median(err_conj) < np.median(err)
                col.violation(f"{site}/{'conjugation' if flipped else 'gain_delay'}",
                              f"{site}: cross/auto spectrum of a copy (gain {gain}, delay {d}) deviates by max {err.max():.3f} / median "
                              f"{np.median(err):.3f} from g exp(-2 pi i f d) (opposite conjugation: median {np.median(err_conj):.3f}); {c}", rep)
                return
    # sinusoids at a grid line (periodogram): Sy[i][j] / Sy[i][i] = a_j / a_i
    if c["method"] == "per" and nall >= 2 and c["nxseg"] >= 16:
        fs = c["fsn"] / c["fsd"]
        amps = np.array([3 + 1j, -1 + 2j, 2 - 2j, 1 + 0.001j])[:nall] * np.array([1, 1e-3, 1e2, 1])[:nall]
        nn = 6 * c["nxseg"]
        tt = np.arange(nn) / fs
        for line in (2, c["nxseg"] // 4, c["nxseg"] // 2 - 2):
            f0 = line * fs / c["nxseg"]
            A = np.real(amps[:, None] * np.exp(2j * np.pi * f0 * tt)[None, :])
            _, S = sd(A, A, dict(c, n=nn))
            for i in range(nall):
                for j in range(nall):
                    got = S[i, j, line] / S[i, i, line]
                    if abs(got - amps[j] / amps[i]) > 1e-9 * abs(amps[j] / amps[i]):
                        col.violation(f"{site}/sinusoid_amplitude_ratio", f"{site}: Sy[{i}][{j}]/Sy[{i}][{i}] at line {line} = {got}, "
                                      f"amplitudes give a_j/a_i = {amps[j] / amps[i]}; {c}", rep)
                        return
    col.sample({"config": {k: c[k] for k in ("nall", "nref", "n", "nxseg", "ovl", "method", "fsn", "fsd")},
                "segments": out["segs"], "grid_step": out["step"]}, cap=1)


def _chunk(args):
    seed, lines = args
    col = core.Collector()
    rng = np.random.default_rng(seed)
    seen = set()
    for ln in lines:
        t = core.seqify(json.loads(ln))
        core.guarded(col, lambda: check_impulse(col, t), f"fdd.SD_est[{t['cfg']['method']}]", f"configuration {t['cfg']}", {"transition": t})
        c = t["cfg"]
        key = (c["nall"], c["nref"], c["nxseg"], c["ovl"], c["method"], c["fsn"], c["fsd"])
        if key not in seen and c["ci"] == 0 and c["rj"] == 0 and c["pi"] == 2 and c["pj"] == 2:
            seen.add(key)
            core.guarded(col, lambda: check_config(col, t, rng), f"fdd.SD_est[{c['method']}]", f"configuration {c}", {"transition": t, "config_level": True})
        col.traces += 1
    return col


def through_classes(ctx):
    """FDD / pLSCF results carry freq and Sy of SD_est on (data, data) with the run parameters honoured."""
    from pyoma2 import algorithms as A
    from pyoma2.functions import fdd
    from pyoma2.setup import SingleSetup

    col = core.Collector()
    rng = np.random.default_rng(ctx.seed)
    x = rng.standard_normal((3000, 3))
    ss = SingleSetup(x, fs=80.0)
    algs = [A.FDD(name="a", nxseg=128, method_SD="per", pov=0.25), A.FDD(name="b", nxseg=64, method_SD="cor"),
            A.pLSCF(name="c", ordmax=3, nxseg=256, method_SD="per", pov=0.75), A.EFDD(name="d", nxseg=128, method_SD="per", pov=0.0)]
    ss.add_algorithms(*algs)
    ss.run_all()
    for a in algs:
        col.count()
        p = a.run_params
        f, S = fdd.SD_est(x.T, x.T, 1 / 80.0, p.nxseg, method=p.method_SD, pov=p.pov)
        if not (np.array_equal(np.asarray(a.result.freq), f) and np.array_equal(np.asarray(a.result.Sy), S)):
            col.violation(f"{type(a).__name__}.run/spectrum", f"{type(a).__name__}: result.freq / result.Sy are not SD_est(data, data) with "
                          f"nxseg={p.nxseg}, method={p.method_SD}, pov={p.pov}", {"classes": True})
    col.traces = len(algs)
    ctx.merge(col)


def spectra_consts(**kw):
    base = {"EstCfgs": Raw("{}"), "MergeNRef": 1, "MergeCounts": Raw("{}"), "MergeParams": Raw("{}"), "GainIds": Raw("{}"),
            "Focus": "est"}
    base.update(kw)
    return base


def run(ctx):
    ctx.rule = ("every (channels, references, record, nxseg, overlap with integer nxseg*pov, estimator, fs, impulse pair) case of "
                "Spectra.tla through SD_est; per (shape, nxseg, overlap, estimator, fs): scaling, bilinearity, Hermitian PSD, Welch "
                "equivalence on the specification's segments, delayed copies, sinusoids. Non-trivial: impulse pairs whose verdict "
                "depends on the segment table (same channel pair, different positions); distinct by configuration")
    ctx.trusted = ["TLC", "numpy FFT for the independent Welch reference", "exact Fractions for the grid"]
    ctx.assumptions = ["'integrates over frequency to the mean square' is a statistical approximation and is not checked",
                       "gain / delay tolerances are the property's own (5 % per line 'per', 30 % median 'cor')"]
    cfgs = est_cfgs(ctx.tier)
    mod, cfg = ctx.model("Spectra", "est", spectra_consts(EstCfgs=Raw("{" + ", ".join(cfgs) + "}")),
                         invariants=["SegmentsInsideRecord", "SegmentsCoverStep", "NoMoreSegmentFits", "GridReachesNyquist",
                                     "OnlyThePairedEntry"],
                         action_constraints=["Emit"], view="View")
    r = ctx.tlc(mod, cfg, raw=True)
    if len(r.transitions) != r.generated - r.initial:
        raise core.MachineryFailure("emitted transition count differs from TLC's")
    lines = sorted(r.transitions)
    chunks = [(ctx.seed + n, ch) for n, ch in enumerate(core.chunks(lines, max(1, len(lines) // 64)))]
    with mp.get_context("fork").Pool(16) as pool:
        for col in pool.map(_chunk, chunks):
            ctx.merge(col)
    through_classes(ctx)
    ctx.exhaustive = True


def replay(ctx, body):
    col = core.Collector()
    if body.get("classes"):
        through_classes(ctx)
        return ctx.violations == 0
    t = core.seqify(body["transition"])
    if body.get("config_level"):
        check_config(col, t, np.random.default_rng(ctx.seed))
    else:
        check_impulse(col, t)
    for k, w, _ in col.viol:
        print(k, w)
    return col.nviol == 0
