# -*- coding: utf-8 -*-
"""
C14 - preprocessing composes, metadata stays truthful, rollback restores the start.

spec    : Setup.tla (invariants MetaTruthful, UniqueNames; action properties RollbackRestores,
          BindingFrozen, BoundToCurrent, NoDataChangeByOrchestration)
binding : direction A - every transition TLC explores is replayed on real SingleSetup /
          MultiSetup_PreGER objects through the public API; after each call the concrete
          object is compared with the abstract post-state (interp = scipy only).
"""
from __future__ import annotations

import numpy as np

from .. import core, tables, walk
from ..core import Raw
from ..setup_world import Interp, World, make_datasets, same_data

FS0 = 120
SETUP_INVARIANTS = ["MetaTruthful", "ResultIsFunctionOfBinding", "UniqueNames"]
SETUP_PROPERTIES = ["RollbackRestores", "BindingFrozen", "BoundToCurrent", "Gated", "Isolation",
                    "NoDataChangeByOrchestration"]


def configs(tier):
    dec_q = [(2, "default"), (3, "default"), (2, "fir"), (3, "n4"), (5, "zp0")]
    det_q = ["linear", "constant"]
    fil_q = [1, 2]
    if tier == "quick":
        return [
            dict(name="single", kind="single", n0=[4000], nch=[3], ref=None, maxlen=3,
                 dec=dec_q, det=det_q, fil=fil_q),
            dict(name="preger2", kind="preger", n0=[4000, 3600], nch=[3, 4], ref=[[0, 1], [2, 0]], maxlen=3,
                 dec=dec_q, det=det_q, fil=fil_q),
        ]
    dec_t = dec_q + [(2, "firn"), (4, "default")]
    det_t = det_q + ["default", "bp"]
    fil_t = [1, 2, 3, 4]
    return [
        dict(name="single", kind="single", n0=[4000], nch=[3], ref=None, maxlen=4,
             dec=dec_q, det=det_q, fil=fil_q),
        dict(name="single_kw", kind="single", n0=[4200], nch=[2], ref=None, maxlen=3,
             dec=dec_t, det=det_t, fil=fil_t),
        dict(name="preger2", kind="preger", n0=[4000, 3600], nch=[3, 4], ref=[[0, 1], [2, 0]], maxlen=4,
             dec=dec_q, det=det_q, fil=fil_q),
        dict(name="preger3_kw", kind="preger", n0=[4000, 3600, 4100], nch=[2, 5, 3],
             ref=[[1], [4], [0]], maxlen=3, dec=dec_t, det=det_t, fil=fil_t),
        dict(name="preger1", kind="preger", n0=[3900], nch=[3], ref=[[2, 1]], maxlen=3,
             dec=dec_q, det=det_q, fil=fil_q),
    ]


def alg_factory(kind, cls, name, par):
    """Cheap algorithm instances (C14 never runs them; it looks at what they are bound to)."""
    from pyoma2.algorithms import FDD, FDD_MS

    k = FDD if kind == "single" else FDD_MS
    return k(name=name, nxseg=64, method_SD="per") if par else k(name=name)


def close(a, b, rtol=1e-12):
    return abs(a - b) <= rtol * max(abs(a), abs(b), 1e-300)


def compare(world: World, interp: Interp, post, raised, results=None):
    """Return the list of clauses of the abstract post-state the concrete world contradicts."""
    bad = []
    if bool(raised) != bool(post["err"]):
        bad.append("err")
    m = world.meta()
    q = post["qprod"]
    fs = post["meta"]["fs"][0] / post["meta"]["fs"][1]
    dt = post["meta"]["dt"][0] / post["meta"]["dt"][1]
    if not close(m["fs"], fs):
        bad.append("fs")
    if not close(m["dt"], dt):
        bad.append("dt")
    if [int(x) for x in m["ndat"]] != list(post["meta"]["ndat"]):
        bad.append("ndat")
    if [int(x) for x in m["len"]] != list(post["ndat"]):
        bad.append("len")
    T = [t[0] / t[1] for t in post["meta"]["T"]]
    if len(m["T"]) != len(T) or not all(close(a, b) for a, b in zip(m["T"], T)):
        bad.append("T")
    if not same_data(world.kind, world.data(), interp.data(post["hist"])):
        bad.append("data")
    if not world.user_untouched():
        bad.append("user_arrays")
    if not world.initial_copy_untouched():
        bad.append("initial_copy")
    if not world.saveload_ok:
        bad.append("saveload_equal")
    algs = getattr(world.setup, "algorithms", {})
    if list(algs.keys()) != [e["name"] for e in post["reg"]]:
        bad.append("registry")
    else:
        for e in post["reg"]:
            a = algs[e["name"]]
            if not same_data(world.kind, a.data, interp.data(e["bh"])):
                bad.append(f"bound_data[{e['name']}]")
            if not close(a.fs, FS0 / e["bq"]) or not close(a.dt, e["bq"] / FS0):
                bad.append(f"bound_rate[{e['name']}]")
            if results is not None:
                bad.extend(results(world, a, e))
    return bad


def known_clause(world, post, clause):
    """
    Map a mismatching clause onto the key of a *listed* finding when - and only when - the observed
    value is exactly what that finding describes.  Anything else stays a violation.
      single/T/after-decimate : SingleSetup.T after decimate_data(q) is  Ndat_new / fs_old
                                (pinned by the baseline test test_single_setup::test_plot_data,
                                 which asserts that T *changes* under decimation)
    """
    if world.kind == "single" and clause == "T":
        decs = [op for op in post["hist"] if op[0] == "dec"]
        if decs:
            m = world.meta()
            bug = m["ndat"][0] * m["dt"] / decs[-1][1]
            if close(m["T"][0], bug, 1e-9):
                return "single/T/after-decimate"
    return None


def act_tag(act):
    n = act["name"]
    if n == "Decimate":
        return f"Decimate:{act['v']}"
    if n == "Detrend":
        return f"Detrend:{act['t']}"
    if n == "Filter":
        return f"Filter:{act['f']}"
    return n


def make_check(kind, interp, cfgname, results=None, skip=frozenset()):
    def check(col, world, act, pre, posts, raised, path):
        best = None
        for i, post in enumerate(posts):
            bad = [b for b in compare(world, interp, post, raised, results) if b not in skip]
            kn = {c: known_clause(world, post, c) for c in bad}
            if bad and all(kn.values()):
                for k in sorted(set(kn.values())):
                    col.violation(k, f"after {[act_tag(a) for a in path]}: listed finding {k}",
                                  {"config": cfgname, "path": path, "expected_post": posts, "mismatch": bad})
                bad = []
            if not bad:
                if len(post["hist"]) >= 2 or (len(path) >= 2 and any(e["ran"] for e in post["reg"])):
                    col.mark_nontrivial((cfgname, post["hist"], [e["name"] for e in post["reg"]], post["gen"]))
                if len(path) >= 3:
                    col.sample({"config": cfgname, "behaviour": path, "abstract_post_state": post})
                return i
            if best is None or len(bad) < len(best):
                best = bad
        exc = repr(world.last_exc)[:200] if world.last_exc is not None else None
        col.violation(f"{kind}/{act_tag(act)}/{'+'.join(sorted(set(best)))}",
                      f"after {[act_tag(a) for a in path]} the {kind} object contradicts the specification in "
                      f"{sorted(set(best))}" + (f" (call raised {exc})" if exc else ""),
                      {"config": cfgname, "path": path, "expected_post": posts, "mismatch": sorted(set(best))})
        return None

    return check


def setup_constants(c, alphabet, run_names, rollback=True, runall=False, saveload=False):
    return {
        "N0": list(c["n0"]), "Fs0": FS0,
        "DecOps": Raw("{" + ", ".join(f'<<{q}, "{v}">>' for q, v in c["dec"]) + "}"),
        "DetOps": set(c["det"]), "FilOps": set(c["fil"]),
        "FilMax": {k: tables.FIL_MAX[k] for k in tables.FIL_MAX},
        "Alphabet": Raw("{" + ", ".join(core.tla(a) for a in alphabet) + "}"),
        "RunNames": set(run_names),
        "WithRollback": rollback, "WithRunAll": runall, "WithSaveLoad": saveload,
        "MaxLen": c["maxlen"],
    }


INIT = None


def init_state(c):
    n0 = list(c["n0"])
    return {"hist": [], "qprod": 1, "ndat": n0,
            "meta": {"fs": [FS0, 1], "dt": [1, FS0], "ndat": n0, "T": [[n, FS0] for n in n0]},
            "reg": [], "err": False, "gen": 0, "len": 0}


def run_config(ctx, c, alphabet, run_names, *, results=None, factory=alg_factory, mpe_args=None,
               runall=False, saveload=False, rollback=True, merge=True, seed_off=0, simulate=None,
               skip=frozenset()):
    mod, cfg = ctx.model("Setup", c["name"], setup_constants(c, alphabet, run_names, rollback, runall, saveload),
                         invariants=SETUP_INVARIANTS, properties=SETUP_PROPERTIES,
                         action_constraints=["Emit"], view="View")
    kw = {}
    if simulate:
        kw = dict(simulate=simulate, depth=c["maxlen"], seed=ctx.seed, workers=1)
    r = ctx.tlc(mod, cfg, **kw)
    graph = walk.Graph(r.transitions)
    if not simulate and len(r.transitions) != r.generated - r.initial:
        raise core.MachineryFailure(f"emitted {len(r.transitions)} transitions, TLC generated {r.generated - r.initial}")
    datasets = make_datasets(c["n0"], c["nch"], ctx.seed + seed_off, FS0)
    interp = Interp(c["kind"], datasets, FS0, c["ref"])

    def make_world():
        return World(c["kind"], datasets, FS0, c["ref"])

    def apply(world, act):
        raised = world.apply(act, alg_factory=factory, mpe_args=mpe_args)
        return world, raised

    cols = walk.walk_parallel(graph, init_state(c), make_world, apply,
                              make_check(c["kind"], interp, c["name"], results, skip),
                              core.Collector, merge=merge)
    for col in cols:
        ctx.merge(col)
    return r, graph


def run(ctx):
    ctx.rule = ("every transition of Setup.tla explored by TLC (all call sequences up to MaxLen over the "
                "configured alphabet) is executed on a real setup object; a case is non-trivial when its data "
                "term holds >= 2 preprocessing operations; distinct by (configuration, data term, registry, generation)")
    ctx.trusted = ["scipy.signal.decimate/detrend/butter/sosfiltfilt (interp)", "numpy.allclose 1e-9 / bit equality",
                   "harness/setup_world.py", "TLC"]
    ctx.assumptions = ["record lengths are long enough for every scipy call in the alphabet to be admissible",
                       "exception type of a rejected call is not constrained"]
    alphabet = [{"name": "a1", "cls": 1, "par": True}]
    for c in configs(ctx.tier):
        run_config(ctx, c, alphabet, run_names=[])
    if ctx.tier == "thorough":
        c = dict(name="single_sim6", kind="single", n0=[8000], nch=[3], ref=None, maxlen=6,
                 dec=[(2, "default"), (3, "default"), (2, "fir"), (3, "n4")], det=["linear", "constant"], fil=[1, 2])
        run_config(ctx, c, alphabet, run_names=[], simulate="num=400")
        c = dict(name="preger_sim6", kind="preger", n0=[8000, 7000], nch=[3, 3], ref=[[2], [0]], maxlen=6,
                 dec=[(2, "default"), (3, "default"), (2, "fir"), (3, "n4")], det=["linear", "constant"], fil=[1, 2])
        run_config(ctx, c, alphabet, run_names=[], simulate="num=400")
    # direction B: recorded executions (the repository's own test_plot_data, seeded random drivers longer than the exhaustive
    # bound) validated against TraceSetup.tla
    from . import trace_setup

    trace_setup.run(ctx, "C14")
    if ctx.tier == "thorough":
        # extra assurance on the specification itself, not relied upon: MetaTruthful as an inductive invariant of the
        # integer core of Setup.tla (SetupMeta.tla), i.e. for behaviours of any length, discharged by Apalache
        base = core.run_apalache("SetupMeta", ctx.scratch, ["--cinit=CInit", "--init=Init", "--inv=IndInv", "--length=0"])
        step = core.run_apalache("SetupMeta", ctx.scratch, ["--cinit=CInit", "--init=IndInit", "--inv=IndInv", "--length=1"])
        ctx.extra["apalache_inductive_MetaTruthful"] = {"base_case": base, "inductive_step": step}
        if not (base and step):
            raise core.MachineryFailure("Apalache refutes the inductive invariant of SetupMeta.tla: the specification is wrong")
    ctx.exhaustive = True
    ctx.extra["exhaustive_note"] = "exhaustive up to MaxLen per configuration; *_sim6 configurations and recorded traces are sampled"


def replay(ctx, body):
    if body.get("trace"):
        from . import trace_setup

        r = trace_setup.validate_one((0, body["trace_json"], ctx.scratch))
        print(r)
        return bool(r.get("accepted"))
    cs = {c["name"]: c for t in ("quick", "thorough") for c in configs(t)}
    c = cs.get(body["config"])
    if c is None:
        raise core.MachineryFailure(f"unknown configuration {body['config']}")
    datasets = make_datasets(c["n0"], c["nch"], ctx.seed, FS0)
    interp = Interp(c["kind"], datasets, FS0, c["ref"])
    w = World(c["kind"], datasets, FS0, c["ref"])
    raised = False
    for act in body["path"]:
        raised = w.apply(act, alg_factory=alg_factory)
    bads = [compare(w, interp, p, raised) for p in body["expected_post"]]
    print("mismatch per admissible post-state:", bads)
    return any(not b for b in bads)
