# -*- coding: utf-8 -*-
"""
C04 - PreGER spectral merging is consistent with the single-setup spectral matrix.

spec    : Spectra.tla, focus "preger" (+ Layout.tla) - MergedRowsAreAllChannels; predictions: which global channel
          every row / column of the merged matrix is, which setup a roving row comes from, reference block = mean over
          setups, roving block = that setup's transmissibility applied to the mean
binding : direction A.  For every partition TLC enumerates (every arrangement of the shared reference channels and the
          roving channels in each setup's channel list), every (nxseg, overlap, estimator) and gain pattern:
          (i) setups cut from one simultaneous recording: fdd.SD_PreGER equals fdd.SD_est of all channels in global
          order against the reference channels, same grid (both sides are outputs of the library; the specification
          supplies the correspondence and the parameters that must be honoured);
          (ii) per-setup gains: reference block = mean of the per-setup reference blocks, every roving block's
          transmissibility unchanged; also through FDD_MS / pLSCF_MS results.
"""
from __future__ import annotations

import json
import multiprocessing as mp

import numpy as np

from .. import core
from ..core import Raw
from .c13 import spectra_consts

GAINS = {0: [1.0, 1.0, 1.0, 1.0], 1: [1.0, 7.0, 1.0, 1.0], 2: [-0.02, 1.0, 300.0, 1.0], 3: [5.0, 5.0, 5.0, 5.0]}
FS = 50.0


def configs(tier):
    if tier == "quick":
        return [
            dict(name="r1", nref=1, cnts=[[1, 1], [2, 1], [1, 1, 1]], params=[(64, 32, "per"), (64, 0, "per"), (64, 48, "per"), (64, 32, "cor")],
                 gains=[0, 1]),
            dict(name="r2", nref=2, cnts=[[1, 1]], params=[(64, 16, "per"), (128, 64, "cor")], gains=[0, 2]),
        ]
    return [
        dict(name="r1", nref=1, cnts=[[1, 1], [2, 1], [1, 1, 1], [2, 2], [1, 1, 1, 1]],
             params=[(64, 32, "per"), (64, 0, "per"), (64, 48, "per"), (64, 32, "cor"), (256, 64, "per"), (256, 128, "cor")], gains=[0, 1, 2]),
        dict(name="r2", nref=2, cnts=[[1, 1], [2, 1], [1, 1, 1]], params=[(64, 16, "per"), (128, 64, "cor"), (512, 384, "per")], gains=[0, 2, 3]),
        dict(name="r3", nref=3, cnts=[[1, 1], [1, 2]], params=[(64, 32, "per"), (128, 0, "cor"), (2048, 1024, "per")], gains=[0, 1]),
    ]


_REC = {}


def recording(nch, n, seed):
    k = (nch, n, seed)
    if k not in _REC:
        rng = np.random.default_rng(seed)
        from scipy import signal

        e = rng.standard_normal((n + 100, nch + 2))
        mix = rng.standard_normal((nch + 2, nch))
        x = signal.lfilter([1.0], [1.0, -1.2, 0.8], e, axis=0)[100:] @ mix + 0.2 * rng.standard_normal((n, nch))
        _REC[k] = x
    return _REC[k]


def check_case(col, cfgname, t, seed):
    from pyoma2.functions import fdd, gen

    cfg, out = t["cfg"], t["out"]
    lays, par, gid = cfg["lays"], cfg["par"], cfg["gain"]
    nxseg, ovl, method = par["nxseg"], par["ovl"], par["method"]
    pov = ovl / nxseg
    if method == "per" and ovl not in (0, nxseg // 2) and gid != 0:
        # an overlap fraction whose product with the segment length is not an integer (ovl + 0.6 samples): the overlap is the
        # integer part in the single-setup estimate, and the merged estimate has to use the same one
        pov = (ovl + 0.6) / nxseg
    nch = max(max(l["chan"]) for l in lays)
    n = nxseg * 8 + 7
    X = recording(nch, n, seed)
    gains = GAINS[gid]
    rep = {"config": cfgname, "transition": t, "seed": seed}
    site = f"fdd.SD_PreGER[{method}]"
    datasets = [gains[i] * X[:, [s - 1 for s in l["chan"]]] for i, l in enumerate(lays)]
    reflist = [[r - 1 for r in l["ref"]] for l in lays]
    Y = gen.pre_multisetup([d.copy() for d in datasets], reflist)
    col.count()
    freq, Sm = fdd.SD_PreGER(Y, FS, nxseg=nxseg, pov=pov, method=method)
    rows = [s - 1 for s in out["rows"]]
    cols = [s - 1 for s in out["cols"]]
    nref = len(cols)
    fe, Se = fdd.SD_est(X[:, rows].T, X[:, cols].T, 1 / FS, nxseg, method=method, pov=pov)
    if Sm.shape != Se.shape or not np.allclose(freq, fe, rtol=1e-12, atol=0):
        col.violation(f"{site}/grid_or_shape", f"{site}: merged matrix {Sm.shape} on grid {freq[:2]}.. vs single-setup {Se.shape} {fe[:2]}..; {par}", rep)
        return
    # lines where the reference block is ill conditioned are not judged
    ok = np.array([np.linalg.cond(Se[:nref, :, k]) < 1e8 for k in range(Se.shape[2])])
    sc = np.abs(Se).max()
    if all(abs(g) == abs(gains[0]) for g in gains[:len(lays)]):
        # (i) one simultaneous recording (a common gain g scales everything by g^2)
        g2 = gains[0] ** 2
        if not np.allclose(Sm[..., ok], g2 * Se[..., ok], rtol=1e-7, atol=1e-10 * sc * g2):
            # name what differs
            if not np.allclose(Sm[:nref][..., ok], g2 * Se[:nref][..., ok], rtol=1e-7, atol=1e-10 * sc * g2):
                # is it the overlap that is ignored?
                _, S5 = fdd.SD_est(X[:, rows].T, X[:, cols].T, 1 / FS, nxseg, method=method, pov=0.5)
                kind = "overlap_ignored" if np.allclose(Sm[..., ok], g2 * S5[..., ok], rtol=1e-7, atol=1e-10 * sc * g2) else "reference_block"
            else:
                kind = "roving_block"
            col.violation(f"{site}/{kind}", f"{site}: merged matrix != single-setup matrix of channels {rows} against {cols} "
                          f"({kind}); nxseg={nxseg} pov={pov}; layouts {lays}", rep)
            return
    else:
        # (ii) per-setup gains: mean reference block, unchanged transmissibilities
        per = []
        for i, l in enumerate(lays):
            allc = [s - 1 for s in l["chan"]]
            refc = [l["chan"][r - 1] - 1 for r in l["ref"]]
            movc = [s - 1 for s in out["rows"][nref:] if out["row_setup"][out["rows"].index(s)] == i + 1]
            _, Srr = fdd.SD_est(gains[i] * X[:, refc].T, gains[i] * X[:, refc].T, 1 / FS, nxseg, method=method, pov=pov)
            Smr = None
            if movc:
                _, Smr = fdd.SD_est(gains[i] * X[:, movc].T, gains[i] * X[:, refc].T, 1 / FS, nxseg, method=method, pov=pov)
            per.append((Srr, Smr, movc))
        mean_ref = sum(p[0] for p in per) / len(per)
        exp = [mean_ref]
        for Srr, Smr, movc in per:
            if movc:
                blk = np.stack([Smr[:, :, k] @ np.linalg.solve(Srr[:, :, k], mean_ref[:, :, k]) if ok[k] else np.zeros_like(Smr[:, :, k])
                                for k in range(Srr.shape[2])], axis=2)
                exp.append(blk)
        exp = np.concatenate(exp, axis=0)
        sc2 = np.abs(exp).max()
        if not np.allclose(Sm[:nref][..., ok], exp[:nref][..., ok], rtol=1e-7, atol=1e-10 * sc2):
            col.violation(f"{site}/reference_block_not_mean", f"{site}: reference block is not the mean over setups of the reference spectra "
                          f"(gains {gains[:len(lays)]}); layouts {lays}", rep)
            return
        if not np.allclose(Sm[nref:][..., ok], exp[nref:][..., ok], rtol=1e-6, atol=1e-9 * sc2):
            col.violation(f"{site}/transmissibility", f"{site}: a roving block is not that setup's transmissibility applied to the mean reference "
                          f"block (gains {gains[:len(lays)]}); layouts {lays}", rep)
            return
    if any(l["ref"] != list(range(1, nref + 1)) for l in lays) and pov != 0.5:
        col.mark_nontrivial((cfgname, json.dumps(cfg, sort_keys=True)))
        col.sample({"config": cfgname, "layouts": lays, "params": par, "gain_pattern": gains[:len(lays)], "merged_rows": out["rows"],
                    "merged_cols": out["cols"]}, cap=1)
    col.bump("ill_conditioned_lines_not_judged", int((~ok).sum()))


def _chunk(args):
    cfgname, seed, lines = args
    col = core.Collector()
    for ln in lines:
        t = json.loads(ln)
        core.guarded(col, lambda: check_case(col, cfgname, t, seed), "fdd.SD_PreGER", f"layouts {t['cfg']['lays']} {t['cfg']['par']}",
                     {"config": cfgname, "transition": t, "seed": seed})
        col.traces += 1
    return col


def through_classes(ctx):
    """FDD_MS / EFDD_MS / pLSCF_MS results carry SD_PreGER with the run's nxseg / method / pov."""
    from pyoma2 import algorithms as A
    from pyoma2.functions import fdd
    from pyoma2.setup import MultiSetup_PreGER

    col = core.Collector()
    X = recording(5, 4000, ctx.seed)
    ms = MultiSetup_PreGER(fs=FS, ref_ind=[[1, 0], [0, 2]], datasets=[X[:, [1, 0, 2]].copy(), X[:, [0, 3, 1, 4]].copy()])
    algs = [A.FDD_MS(name="a", nxseg=128, method_SD="per", pov=0.25), A.EFDD_MS(name="b", nxseg=64, method_SD="per", pov=0.75),
            A.pLSCF_MS(name="c", ordmax=3, nxseg=128, method_SD="cor")]
    ms.add_algorithms(*algs)
    # history: every algorithm has already been run once with another overlap / segment length before the judged run - the
    # result of a run is a function of the current run parameters, not of what an earlier run estimated
    want = [(a.run_params.pov, a.run_params.nxseg) for a in algs]
    for a in algs:
        a.run_params.pov = 0.5
    ms.run_all()
    for a, (pov, _) in zip(algs, want):
        a.run_params.pov = pov
        ms.run_by_name(a.name)
    for a in algs:
        col.count()
        p = a.run_params
        f, S = fdd.SD_PreGER(ms.data, FS, nxseg=p.nxseg, pov=p.pov, method=p.method_SD)
        rows, cols = [0, 1, 2, 3, 4], [0, 1]
        fe, Se = fdd.SD_est(X[:, rows].T, X[:, cols].T, 1 / FS, p.nxseg, method=p.method_SD, pov=p.pov)
        ok = np.array([np.linalg.cond(Se[:2, :, k]) < 1e8 for k in range(Se.shape[2])])
        if not np.array_equal(np.asarray(a.result.Sy), S) or not np.allclose(np.asarray(a.result.Sy)[..., ok], Se[..., ok], rtol=1e-7,
                                                                             atol=1e-10 * np.abs(Se).max()):
            col.violation(f"{type(a).__name__}.run/spectrum", f"{type(a).__name__}: result.Sy is not the merged matrix for nxseg={p.nxseg} "
                          f"pov={p.pov} method={p.method_SD} (or it differs from the single-setup matrix)", {"classes": True})
    col.traces = len(algs)
    ctx.merge(col)


def run(ctx):
    ctx.rule = ("every partition of a recording into setups (all arrangements of shared reference and roving channels), estimator, "
                "segment length, overlap and gain pattern enumerated by Spectra.tla (focus preger) through SD_PreGER vs SD_est; "
                "non-trivial: references not the leading channels in listed order and an overlap different from the default; "
                "distinct by (config, layouts, parameters, gains)")
    ctx.trusted = ["TLC", "both sides of clause (i) are outputs of the library (SD_PreGER vs SD_est)", "numpy.linalg.solve for the "
                   "transmissibility in clause (ii)"]
    ctx.assumptions = ["lines where the reference block has condition number > 1e8 are not judged"]
    for c in configs(ctx.tier):
        consts = spectra_consts(
            MergeNRef=c["nref"],
            MergeCounts=Raw("{" + ", ".join("<<" + ", ".join(map(str, x)) + ">>" for x in c["cnts"]) + "}"),
            MergeParams=Raw("{" + ", ".join('[nxseg |-> %d, ovl |-> %d, method |-> "%s"]' % p for p in c["params"]) + "}"),
            GainIds=set(c["gains"]), Focus="preger")
        mod, cfg = ctx.model("Spectra", "preger_" + c["name"], consts, invariants=["MergedRowsAreAllChannels"],
                             action_constraints=["Emit"], view="View")
        r = ctx.tlc(mod, cfg, raw=True)
        if len(r.transitions) != r.generated - r.initial:
            raise core.MachineryFailure("emitted transition count differs from TLC's")
        lines = r.transitions
        chunks = [(c["name"], ctx.seed, ch) for ch in core.chunks(lines, max(1, len(lines) // 64))]
        with mp.get_context("fork").Pool(16) as pool:
            for col in pool.map(_chunk, chunks):
                ctx.merge(col)
    through_classes(ctx)
    ctx.exhaustive = True


def replay(ctx, body):
    col = core.Collector()
    if body.get("classes"):
        through_classes(ctx)
        return ctx.violations == 0
    check_case(col, body["config"], body["transition"], body.get("seed", ctx.seed))
    for k, w, _ in col.viol:
        print(k, w)
    return col.nviol == 0
