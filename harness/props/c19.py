# -*- coding: utf-8 -*-
"""
C19 - geometry tables are validated, aligned to sensor order and mapped faithfully.

spec    : Geo.tla (+ Layout.tla) - RejectIffMalformed, OptionalSheetsOptional, ZeroBased, RowKIsSensorK,
          ZeroWhereNothingNamed; the prediction for a table set is `ValueError` or the geometry (flattened names,
          which sensor every re-ordered row is, zero-based indices, mapped and displayed values of the mode shape)
binding : direction A.  interp turns a table-set description into the dictionary of DataFrames
          pandas.read_excel(sheet_name=None, index_col=0) would return (the optional openpyxl reader is absent
          offline; its one call is outside the claim) and into the documented argument forms of def_geo1 / def_geo2;
          sensor k sits at (10k, k, -k) and carries the mode-shape component k + 1, so the projection reads which
          sensor every row, arrow and displaced point belongs to.  Sites: gen.check_on_geo1 / check_on_geo2,
          def_geo1 / def_geo2 on SingleSetup, MultiSetup_PreGER and MultiSetup_PoSER, gen.dfphi_map_func,
          plot_mode_geo1 / plot_mode_geo2_mpl (Agg).  The outcome must be the predicted geometry or ValueError -
          another exception type is a mismatch.
"""
from __future__ import annotations

import json
import multiprocessing as mp

import numpy as np
import pandas as pd

from .. import core
from ..core import Raw

FAULTS1 = ["missing_names", "missing_coords", "missing_dirs", "unknown_sheet", "coord_cols", "shape_mismatch", "index_mismatch",
           "unknown_name", "bgnodes_cols", "bglines_cols", "bgsurf_cols"]
FAULTS2 = ["missing_names", "missing_points", "missing_mapping", "unknown_sheet", "points_cols", "map_shape", "sign_shape",
           "cstr_unknown_sensor", "bgnodes_cols", "bglines_cols", "bgsurf_cols"]
OPT1 = ["sensors lines", "BG nodes", "BG lines", "BG surfaces"]
OPT2 = ["constraints", "sensors sign", "sensors lines", "sensors surfaces", "BG nodes", "BG lines", "BG surfaces"]


def name_of(nm):
    return f"REF{nm[1]}" if nm[0] == "ref" else f"S{nm[1]}"


def coord_of(nm):
    k = nm[1] + (100 if nm[0] == "ref" else 0)
    return [10.0 * k, 1.0 * k, -1.0 * k]


def dir_of(nm):
    k = nm[1]
    return [float(k % 2), float((k + 1) % 2), 1.0 if nm[0] == "ref" else -1.0]


def flat_names(t):
    """harness-side list of name tuples in the order the *user* gives them (before flattening)"""
    if t["form"] in ("lol", "table"):
        return None
    return [("s", i) for i in t["order"]]


def names_arg(t):
    """the 'sensors names' entry in the form of the case, plus ref_ind for multi-setup forms"""
    if t["form"] in ("lol", "table"):
        lol = [[(f"S{s}" if s > len(t["lays"][0]["ref"]) else f"R{s}_{i}") for s in lay["chan"]] for i, lay in enumerate(t["lays"])]
        ref_ind = [[r - 1 for r in lay["ref"]] for lay in t["lays"]]
        if t["form"] == "lol":
            return lol, ref_ind
        width = max(len(x) for x in lol)
        return pd.DataFrame([x + [np.nan] * (width - len(x)) for x in lol]), ref_ind
    names = [f"S{i}" for i in t["order"]]
    if t["form"] == "row":
        return pd.DataFrame([names]), None
    if t["form"] == "list":
        return list(names), None
    return np.array(names), None


def bg_sheets(t, fault, d):
    if "BG nodes" in t["opt"]:
        d["BG nodes"] = pd.DataFrame(np.arange(12.0).reshape(4, 3) if fault != "bgnodes_cols" else np.arange(8.0).reshape(4, 2))
    elif fault == "bgnodes_cols":
        d["BG nodes"] = pd.DataFrame(np.arange(8.0).reshape(4, 2))
    if "BG lines" in t["opt"]:
        d["BG lines"] = pd.DataFrame([[1, 2], [2, 4]] if fault != "bglines_cols" else [[1, 2, 3], [2, 4, 1]])
    elif fault == "bglines_cols":
        d["BG lines"] = pd.DataFrame([[1, 2, 3], [2, 4, 1]])
    if "BG surfaces" in t["opt"]:
        d["BG surfaces"] = pd.DataFrame([[1, 2, 3], [2, 3, 4]] if fault != "bgsurf_cols" else [[1, 2], [2, 3]])
    elif fault == "bgsurf_cols":
        d["BG surfaces"] = pd.DataFrame([[1, 2], [2, 3]])


def expected_names(out):
    return [name_of(tuple(nm)) for nm in out["geo"]["names"]]


# ---------------------------------------------------------------------------------------------------------
# geo1
# ---------------------------------------------------------------------------------------------------------
def tables1(t):
    fault = t["fault"]
    all_names = [tuple(x) for x in t["allnames"]]          # every physical sensor as a name tuple
    rows = [all_names[r - 1] for r in t["rowperm"]]
    names, ref_ind = names_arg(t)
    coords = pd.DataFrame([coord_of(nm) for nm in rows], index=[name_of(nm) for nm in rows], columns=["x", "y", "z"])
    dirs = pd.DataFrame([dir_of(nm) for nm in rows], index=[name_of(nm) for nm in rows], columns=["x", "y", "z"])
    if fault == "coord_cols":
        coords = coords[["x", "y"]]
        dirs = dirs[["x", "y"]]
    if fault == "shape_mismatch":
        dirs = dirs.iloc[:-1]
    if fault == "index_mismatch":
        dirs = dirs.iloc[::-1] if len(dirs) > 1 else dirs.rename(index={dirs.index[0]: "other"})
    if fault == "unknown_name":
        coords = coords.rename(index={coords.index[0]: "ghost"})
        dirs = dirs.rename(index={dirs.index[0]: "ghost"})
    d = {"sensors names": names, "sensors coordinates": coords, "sensors directions": dirs}
    if "sensors lines" in t["opt"]:
        d["sensors lines"] = pd.DataFrame([list(x) for x in t["lines"]])
    bg_sheets(t, fault, d)
    if fault == "unknown_sheet":
        d["foo"] = pd.DataFrame([[1]])
    for key, f in (("sensors names", "missing_names"), ("sensors coordinates", "missing_coords"), ("sensors directions", "missing_dirs")):
        if fault == f:
            del d[key]
    return d, ref_ind


def judge_geo1(col, site, t, out, geo, rep):
    names = expected_names(out)
    bad = None
    if list(geo.sens_names) != names:
        bad = ("names", f"sens_names {list(geo.sens_names)} expected {names}")
    else:
        exp_c = np.array([coord_of(tuple(nm)) for nm in out["geo"]["row_sensor"]])
        exp_d = np.array([dir_of(tuple(nm)) for nm in out["geo"]["row_sensor"]])
        if list(geo.sens_coord.index) != names or not np.array_equal(geo.sens_coord.to_numpy(dtype=float), exp_c):
            bad = ("coordinates_not_aligned", f"row k of sens_coord is not the sensor named k: index {list(geo.sens_coord.index)}")
        elif not np.array_equal(np.asarray(geo.sens_dir, dtype=float), exp_d):
            bad = ("directions_not_aligned", "row k of sens_dir is not the sensor named k")
        else:
            if "sensors lines" in t["opt"]:
                if geo.sens_lines is None or np.asarray(geo.sens_lines).tolist() != [list(x) for x in out["geo"]["lines0"]]:
                    bad = ("lines_not_zero_based", f"sens_lines {None if geo.sens_lines is None else np.asarray(geo.sens_lines).tolist()} expected {out['geo']['lines0']}")
            elif geo.sens_lines is not None:
                bad = ("lines_invented", "sens_lines present although the sheet was omitted")
            if bad is None and "BG lines" in t["opt"] and (geo.bg_lines is None or np.asarray(geo.bg_lines).tolist() != [[0, 1], [1, 3]]):
                bad = ("bg_lines_not_zero_based", f"bg_lines {geo.bg_lines}")
            if bad is None and "BG surfaces" in t["opt"] and (geo.bg_surf is None or np.asarray(geo.bg_surf).tolist() != [[0, 1, 2], [1, 2, 3]]):
                bad = ("bg_surf_not_zero_based", f"bg_surf {geo.bg_surf}")
            if bad is None and "BG nodes" in t["opt"] and (geo.bg_nodes is None or not np.array_equal(np.asarray(geo.bg_nodes, dtype=float), np.arange(12.0).reshape(4, 3))):
                bad = ("bg_nodes_changed", "bg_nodes differ from the sheet")
    if bad:
        col.violation(f"{site}/{bad[0]}", f"{site}: {bad[1]}; table set {t}", rep)
        return False
    return True


def plot_geo1(col, site, setup, out, rep):
    import matplotlib.pyplot as plt
    from pyoma2.algorithms.data.result import BaseResult

    names = out["geo"]["row_sensor"]
    phi = np.array([[float(nm[1] + 1 + (50 if nm[0] == "ref" else 0))] for nm in names])
    # two modes in the result (the second one seven times the first): mode number 1 must draw the first column
    res = BaseResult(Fn=np.array([1.0, 2.0]), Phi=np.hstack([phi, 7.0 * phi]))
    fig, ax = setup.plot_mode_geo1(res, mode_nr=1, scaleF=1)
    segs = []
    for ln in ax.lines:
        x, y, z = ln.get_data_3d()
        if len(x) == 2:
            segs.append((round(x[0], 9), round(y[0], 9), round(z[0], 9), round(x[1], 9), round(y[1], 9), round(z[1], 9)))
    plt.close("all")
    for k, nm in enumerate(names):
        c = np.array(coord_of(tuple(nm)))
        e = c + np.array(dir_of(tuple(nm))) * phi[k, 0]
        want = tuple(np.round(np.concatenate([c, e]), 9))
        if want not in segs:
            col.violation(f"{site}/arrow_misplaced", f"{site}: no arrow from the position of sensor {name_of(tuple(nm))} with its own component "
                          f"(expected segment {want})", rep)
            return False
    return True


def run_sites1(col, t, out):
    from pyoma2.functions import gen
    from pyoma2.setup import MultiSetup_PoSER, MultiSetup_PreGER, SingleSetup

    rep = {"kind": "geo1", "ts": t, "out": out}
    multi = t["form"] in ("lol", "table")
    sites = ["gen.check_on_geo1"]
    if t["fault"] not in ("missing_names", "missing_coords", "missing_dirs", "unknown_sheet"):
        sites += (["MultiSetup_PreGER.def_geo1", "MultiSetup_PoSER.def_geo1"] if multi else ["SingleSetup.def_geo1"])
    if t.get("argform") == "array":
        sites = [x for x in sites if "def_geo1" in x]
    # second definition from the very same table objects, as in run_sites2
    sites = [x for s0 in sites for x in ([s0, s0 + "[again]"] if t["fault"] == "none" else [s0])]
    d = ref_ind = None
    for site_full in sites:
        again = site_full.endswith("[again]")
        site = site_full[:-len("[again]")] if again else site_full
        if not again:
            d, ref_ind = tables1(t)
        col.count()
        try:
            if site == "gen.check_on_geo1":
                r = gen.check_on_geo1(dict(d), ref_ind=ref_ind)   # fresh dict (the function fills it in), same table objects
                from pyoma2.support.geometry import Geometry1

                geo = Geometry1(sens_names=r[0], sens_coord=r[1], sens_dir=r[2], sens_lines=r[3], bg_nodes=r[4], bg_lines=r[5], bg_surf=r[6])
                setup = None
            else:
                if site.startswith("SingleSetup"):
                    setup = SingleSetup(np.zeros((8, t["n"])), fs=10.0)
                elif site.startswith("MultiSetup_PreGER"):
                    setup = MultiSetup_PreGER(fs=10.0, ref_ind=ref_ind, datasets=[np.zeros((8, len(l["chan"]))) for l in t["lays"]])
                else:
                    setup = object.__new__(MultiSetup_PoSER)
                    setup.ref_ind = ref_ind
                kw = {}
                arr = t.get("argform") == "array"
                for key, arg in (("sensors lines", "sens_lines"), ("BG nodes", "bg_nodes"), ("BG lines", "bg_lines"), ("BG surfaces", "bg_surf")):
                    if key in d:
                        kw[arg] = d[key].to_numpy() if arr else d[key]
                sdir = d["sensors directions"].to_numpy() if arr else d["sensors directions"]
                setup.def_geo1(sens_names=d["sensors names"], sens_coord=d["sensors coordinates"], sens_dir=sdir, **kw)
                geo = setup.geo1
            got = "Geometry"
        except ValueError:
            got = "ValueError"
        except Exception as e:
            got = type(e).__name__
        site = site_full
        if got != out["outcome"]:
            what = "accepted_malformed" if got == "Geometry" else (f"raised_{got}" if out["outcome"] == "Geometry" else f"raised_{got}_not_ValueError")
            col.violation(f"{site}/{what}/{t['form']}/{t['fault']}" + ("/array_arguments" if t.get("argform") == "array" else ""),
                          f"{site}: outcome {got}, specification says {out['outcome']}; names form "
                          f"{t['form']}, fault {t['fault']}, optional sheets {t['opt']}, argument form {t.get('argform', 'frame')}", dict(rep, site=site))
            continue
        if got == "Geometry":
            if judge_geo1(col, site, t, out, geo, dict(rep, site=site)) and setup is not None:
                plot_geo1(col, site.replace("def_geo1", "plot_mode_geo1"), setup, out, dict(rep, site=site))


# ---------------------------------------------------------------------------------------------------------
# geo2
# ---------------------------------------------------------------------------------------------------------
def cell_text(c):
    if c[0] == "s":
        return f"S{c[1]}"
    if c[0] == "c":
        return f"C{c[1]}"
    return 0.0 if c[0] == "z" else np.nan


def tables2(t):
    fault = t["fault"]
    names, ref_ind = names_arg(t)
    npts = len(t["map"])
    pts = pd.DataFrame([[5.0 * p, 1.0 + p, 2.0 * p] for p in range(npts)], columns=["x", "y", "z"], index=[f"P{p + 1}" for p in range(npts)])
    mp_ = pd.DataFrame([[cell_text(c) for c in row] for row in t["map"]], columns=["x", "y", "z"], index=pts.index, dtype=object)
    d = {"sensors names": names, "points coordinates": pts, "mapping": mp_}
    if t["cstr"] and "constraints" in t["opt"]:
        cols = [f"S{i + 1}" for i in range(t["n"])]
        d["constraints"] = pd.DataFrame([[float(v) if v != 0 else np.nan for v in row] for row in t["cstr"]], index=[f"C{j + 1}" for j in range(len(t["cstr"]))], columns=cols)
        if fault == "cstr_unknown_sensor":
            d["constraints"] = d["constraints"].rename(columns={cols[0]: "ghost"})
    elif fault == "cstr_unknown_sensor":
        d["constraints"] = pd.DataFrame([[1.0]], index=["C9"], columns=["ghost"])
    if "sensors sign" in t["opt"]:
        d["sensors sign"] = pd.DataFrame([[float(v) for v in row] for row in t["sign"]], columns=["x", "y", "z"], index=pts.index)
        if fault == "sign_shape":
            d["sensors sign"] = d["sensors sign"].iloc[:-1]
    elif fault == "sign_shape":
        d["sensors sign"] = pd.DataFrame(np.ones((npts + 1, 3)), columns=["x", "y", "z"])
    if fault == "points_cols":
        d["points coordinates"] = pts[["x", "y"]]
        d["mapping"] = mp_[["x", "y"]]
    if fault == "map_shape":
        d["mapping"] = mp_.iloc[:-1] if npts > 1 else pd.concat([mp_, mp_])
    if "sensors lines" in t["opt"]:
        d["sensors lines"] = pd.DataFrame([list(x) for x in t["lines"]])
    if "sensors surfaces" in t["opt"]:
        d["sensors surfaces"] = pd.DataFrame([[1, 2, 2]])
    bg_sheets(t, fault, d)
    if fault == "unknown_sheet":
        d["foo"] = pd.DataFrame([[1]])
    for key, f in (("sensors names", "missing_names"), ("points coordinates", "missing_points"), ("mapping", "missing_mapping")):
        if fault == f:
            del d[key]
    return d, ref_ind


def judge_geo2(col, site, t, out, geo, rep):
    from pyoma2.functions import gen

    names = expected_names(out)
    bad = None
    if list(geo.sens_names) != names:
        bad = ("names", f"sens_names {list(geo.sens_names)} expected {names}")
    else:
        phi = np.array([float(i + 1) for i in range(1, t["n"] + 1)])      # component of sensor i is i + 1
        phi_by_name = {f"S{i}": i + 1.0 for i in range(1, t["n"] + 1)}
        vec = np.array([phi_by_name[nm] for nm in names])
        got = gen.dfphi_map_func(vec, geo.sens_names, geo.sens_map, cstrn=geo.cstrn).to_numpy(dtype=float)
        exp = np.array(out["geo"]["mapped"], dtype=float)
        if got.shape != exp.shape or not np.allclose(got, exp, rtol=0, atol=1e-12):
            bad = ("mapping", f"mapped values {got.tolist()} expected {exp.tolist()}")
        else:
            sign = geo.sens_sign.to_numpy(dtype=float) if geo.sens_sign is not None else None
            shown = got * sign if sign is not None and sign.shape == got.shape else None
            if shown is None:
                bad = ("sign", f"no usable sign table in the geometry ({None if sign is None else sign.shape}); mapped values have shape {got.shape}")
            elif not np.allclose(shown, np.array(out["geo"]["shown"], dtype=float), rtol=0, atol=1e-12):
                bad = ("sign", f"displayed displacement {shown.tolist()} expected {out['geo']['shown']}")
        if bad is None and "sensors lines" in t["opt"]:
            if geo.sens_lines is None or np.asarray(geo.sens_lines).tolist() != [list(x) for x in out["geo"]["lines0"]]:
                bad = ("lines_not_zero_based", f"sens_lines {geo.sens_lines}")
        if bad is None and "sensors surfaces" in t["opt"] and (geo.sens_surf is None or np.asarray(geo.sens_surf).tolist() != [[0, 1, 1]]):
            bad = ("surfaces_not_zero_based", f"sens_surf {geo.sens_surf}")
        if bad is None and "BG lines" in t["opt"] and (geo.bg_lines is None or np.asarray(geo.bg_lines).tolist() != [[0, 1], [1, 3]]):
            bad = ("bg_lines_not_zero_based", f"bg_lines {geo.bg_lines}")
    if bad:
        col.violation(f"{site}/{bad[0]}", f"{site}: {bad[1]}; table set {t}", rep)
        return False
    return True


def plot_geo2(col, site, setup, t, out, rep):
    import matplotlib.pyplot as plt
    from pyoma2.algorithms.data.result import BaseResult

    names = expected_names(out)
    phi_by_name = {f"S{i}": i + 1.0 for i in range(1, t["n"] + 1)}
    phi = np.array([[phi_by_name[nm]] for nm in names])
    res = BaseResult(Fn=np.array([1.0, 2.0]), Phi=np.hstack([phi, 7.0 * phi]))      # mode number 1 = first column
    fig, ax = setup.plot_mode_geo2_mpl(res, mode_nr=1, scaleF=1, color="blue")
    clouds = []
    for c in ax.collections:                      # (background nodes, when given, are a scatter collection of their own)
        if hasattr(c, "_offsets3d"):
            x, y, z = c._offsets3d
            clouds.append(np.column_stack([np.asarray(x, dtype=float), np.asarray(y, dtype=float), np.asarray(z, dtype=float)]))
    plt.close("all")
    npts = len(t["map"])
    base = np.array([[5.0 * p, 1.0 + p, 2.0 * p] for p in range(npts)])
    exp = base + np.array(out["geo"]["shown"], dtype=float)
    if not any(pts.shape == exp.shape and np.allclose(pts, exp, rtol=0, atol=1e-12) for pts in clouds):
        col.violation(f"{site}/displaced_points", f"{site}: point clouds drawn {[p.tolist() for p in clouds]}, none is the displaced points "
                      f"{exp.tolist()}", rep)


ARRAY_OPT2 = {"sensors lines", "sensors surfaces", "BG nodes", "BG lines", "BG surfaces"}


def run_sites2(col, t, out):
    from pyoma2.functions import gen
    from pyoma2.setup import SingleSetup

    rep = {"kind": "geo2", "ts": t, "out": out}
    sites = ["gen.check_on_geo2"]
    if t["fault"] not in ("missing_names", "missing_points", "missing_mapping", "unknown_sheet"):
        sites.append("SingleSetup.def_geo2")
        # documented ndarray forms of the optional line / surface / background tables (same prediction)
        if t["fault"] == "none" and set(t["opt"]) & ARRAY_OPT2:
            sites.append("SingleSetup.def_geo2[arrays]")
    # a second definition from the very same table objects (the user re-defines the geometry with the tables they hold):
    # the statement holds for every definition, so a definition must not consume or alter the caller's tables
    sites = [x for s0 in sites for x in ([s0, s0 + "[again]"] if t["fault"] == "none" else [s0])]
    d = ref_ind = None
    for site_full in sites:
        again = site_full.endswith("[again]")
        site = site_full[:-len("[again]")] if again else site_full
        if not again:
            d, ref_ind = tables2(t)
        col.count()
        setup = None
        try:
            if site == "gen.check_on_geo2":
                r = gen.check_on_geo2(dict(d), ref_ind=ref_ind)   # fresh dict (the function fills it in), same table objects
                from pyoma2.support.geometry import Geometry2

                geo = Geometry2(sens_names=r[0], pts_coord=r[1].astype(float), sens_map=r[2], cstrn=r[3], sens_sign=r[4], sens_lines=r[5],
                                sens_surf=r[6], bg_nodes=r[7], bg_lines=r[8], bg_surf=r[9])
            else:
                setup = SingleSetup(np.zeros((8, t["n"])), fs=10.0)
                kw = {}
                for key, arg in (("constraints", "cstr"), ("sensors sign", "sens_sign"), ("sensors lines", "sens_lines"), ("sensors surfaces", "sens_surf"),
                                 ("BG nodes", "bg_nodes"), ("BG lines", "bg_lines"), ("BG surfaces", "bg_surf")):
                    if key in d:
                        kw[arg] = d[key].to_numpy() if (site.endswith("[arrays]") and key in ARRAY_OPT2) else d[key]
                setup.def_geo2(sens_names=d["sensors names"], pts_coord=d["points coordinates"], sens_map=d["mapping"], **kw)
                geo = setup.geo2
            got = "Geometry"
        except ValueError:
            got = "ValueError"
        except Exception as e:
            got = type(e).__name__
        site = site_full
        if got != out["outcome"]:
            what = "accepted_malformed" if got == "Geometry" else (f"raised_{got}" if out["outcome"] == "Geometry" else f"raised_{got}_not_ValueError")
            col.violation(f"{site}/{what}/{t['form']}/{t['fault']}" + ("" if "constraints" in t["opt"] else "/no_constraints_sheet"),
                          f"{site}: outcome {got}, specification says {out['outcome']}; names form {t['form']}, fault {t['fault']}, optional "
                          f"sheets {t['opt']}, mapping {t['map']}", dict(rep, site=site))
            continue
        if got == "Geometry":
            if judge_geo2(col, site, t, out, geo, dict(rep, site=site)) and setup is not None:
                plot_geo2(col, "SingleSetup.plot_mode_geo2_mpl", setup, t, out, dict(rep, site=site))


def _chunk(args):
    kind, lines = args
    col = core.Collector()
    for ln in lines:
        tr = json.loads(ln)
        t, out = tr["ts"], tr["out"]
        (run_sites1 if kind == "geo1" else run_sites2)(col, t, out)
        col.traces += 1
        if out["outcome"] == "Geometry" and (t.get("rowperm") not in (None, sorted(t.get("rowperm", []))) or kind == "geo2"):
            col.mark_nontrivial(ln)
            col.sample({"kind": kind, "table_set": t, "predicted": out}, cap=1)
        elif out["outcome"] == "ValueError":
            col.mark_nontrivial(ln)
    return col


# ---------------------------------------------------------------------------------------------------------
def perms_tla(n):
    import itertools

    return "{" + ", ".join("<<" + ", ".join(map(str, p)) + ">>" for p in itertools.permutations(range(1, n + 1))) + "}"


def orders_tla(n):
    """sensor-name orders: every permutation up to 3 sensors; for 4 the identity, the reversal, a rotation and a transposition
    (24 x 24 x forms x faults x sheets made TLC's single-threaded initial-state generation run for more than 20 minutes)"""
    if n <= 3:
        return perms_tla(n)
    return "{<<1, 2, 3, 4>>, <<4, 3, 2, 1>>, <<2, 3, 4, 1>>, <<1, 3, 2, 4>>}"


def subsets_tla(items, which):
    return "{" + ", ".join("{" + ", ".join(f'"{x}"' for x in s) + "}" for s in which) + "}"


def run(ctx):
    ctx.rule = ("every table set of Geo.tla (name forms, every row permutation, optional sheets present / absent, every single-fault "
                "corruption; geo2: every mapping table over sensor / constraint / 0 / NaN cells, constraint matrices, sign tables) through "
                "check_on_geo1/2, def_geo1/2 on the setup classes, dfphi_map_func and the matplotlib mode plots; non-trivial: valid table "
                "sets whose coordinate rows are not already in name order (geo1) / all valid geo2 sets, and all malformed sets")
    ctx.trusted = ["TLC", "pandas DataFrames shaped as read_excel(sheet_name=None, index_col=0) returns them", "matplotlib 3D artist accessors"]
    ctx.assumptions = ["reading .xlsx itself (openpyxl) is outside the claim: the reader is not installed offline"]
    quick = ctx.tier == "quick"
    import itertools

    # ---- geo1, single setup
    opts = [[], ["sensors lines"], ["sensors lines", "BG nodes", "BG lines", "BG surfaces"], ["BG lines"]]
    sets = []
    for n in ((2, 3) if quick else (1, 2, 3, 4)):
        allnames = "<<" + ", ".join(f'<<"s", {i}>>' for i in range(1, n + 1)) + ">>"
        lines = "<<<<1, 2>>, <<2, %d>>>>" % n if n >= 2 else "<<>>"
        sets.append(
            "{[n |-> %d, form |-> f, order |-> o, rowperm |-> rp, fault |-> ft, opt |-> op, lines |-> %s, lays |-> <<>>, allnames |-> %s, "
            "argform |-> \"frame\"] : "
            "f \\in {\"row\", \"list\", \"array\"}, o \\in %s, rp \\in %s, ft \\in {\"none\"} \\cup Faults1, op \\in %s}"
            % (n, lines, allnames, orders_tla(n), perms_tla(n), subsets_tla(OPT1, opts if n >= 2 else [[], ["BG nodes"]])))
        # documented array forms of the direction table and of the optional tables (def_geo1 only)
        sets.append(
            "{[n |-> %d, form |-> f, order |-> o, rowperm |-> rp, fault |-> \"none\", opt |-> op, lines |-> %s, lays |-> <<>>, allnames |-> %s, "
            "argform |-> \"array\"] : f \\in {\"list\", \"array\"}, o \\in %s, rp \\in %s, op \\in %s}"
            % (n, lines, allnames, orders_tla(n), perms_tla(n), subsets_tla(OPT1, opts if n >= 2 else [[], ["BG nodes"]])))
    consts = {"Kind": "geo1", "TableSets": Raw("UNION {" + ", ".join(sets) + "}"), "Faults1": set(FAULTS1), "Faults2": set(FAULTS2)}
    mod, cfg = ctx.model("Geo", "geo1", consts, invariants=["RejectIffMalformed", "OptionalSheetsOptional", "ZeroBased", "RowKIsSensorK"],
                         action_constraints=["Emit"], view="View")
    r = ctx.tlc(mod, cfg, raw=True)
    lines_ = sorted(r.transitions)
    cap = 6000 if quick else 60000
    if len(lines_) > cap:
        rng = np.random.default_rng(ctx.seed)
        ctx.extra["geo1_enumerated"] = len(lines_)
        lines_ = [lines_[i] for i in sorted(rng.choice(len(lines_), size=cap, replace=False))]
    chunks = [("geo1", ch) for ch in core.chunks(lines_, max(1, len(lines_) // 64))]
    with mp.get_context("fork").Pool(16) as pool:
        for col in pool.map(_chunk, chunks):
            ctx.merge(col)
    # ---- geo1, multi setup: names flattened through the reference layout
    msets = []
    for nref, cnt in (((1, (1, 1)), (2, (1, 1))) if quick else ((1, (1, 1)), (1, (2, 1)), (2, (1, 1)), (2, (1, 2)))):
        ntot = nref + sum(cnt)
        allnames = "<<" + ", ".join([f'<<"ref", {j}>>' for j in range(1, nref + 1)] + [f'<<"s", {s}>>' for s in range(nref + 1, ntot + 1)]) + ">>"
        msets.append(
            "{[n |-> %d, form |-> f, order |-> <<>>, rowperm |-> rp, fault |-> ft, opt |-> op, lines |-> <<<<1, 2>>>>, lays |-> l, allnames |-> %s] : "
            "f \\in {\"lol\", \"table\"}, rp \\in %s, ft \\in {\"none\", \"unknown_name\", \"index_mismatch\"}, op \\in {{}, {\"sensors lines\"}}, "
            "l \\in AllLayouts(%d, <<%s>>)}" % (ntot, allnames, perms_tla(ntot) if ntot <= 3 else "{<<%s>>, <<%s>>}" % (
                ", ".join(map(str, range(ntot, 0, -1))), ", ".join(map(str, list(range(2, ntot + 1)) + [1]))), nref, ", ".join(map(str, cnt))))
    consts = {"Kind": "geo1", "TableSets": Raw("UNION {" + ", ".join(msets) + "}"), "Faults1": set(FAULTS1), "Faults2": set(FAULTS2)}
    mod, cfg = ctx.model("Geo", "geo1ms", consts, invariants=["RejectIffMalformed", "RowKIsSensorK"], action_constraints=["Emit"], view="View")
    r = ctx.tlc(mod, cfg, raw=True)
    lines_ = sorted(r.transitions)
    if len(lines_) > cap:
        rng = np.random.default_rng(ctx.seed + 1)
        lines_ = [lines_[i] for i in sorted(rng.choice(len(lines_), size=cap, replace=False))]
    chunks = [("geo1", ch) for ch in core.chunks(lines_, max(1, len(lines_) // 64))]
    with mp.get_context("fork").Pool(16) as pool:
        for col in pool.map(_chunk, chunks):
            ctx.merge(col)
    # ---- geo2, single setup
    cells = '{<<"s", 1>>, <<"s", 2>>, <<"c", 1>>, <<"z">>, <<"n">>}'
    opt2 = [["constraints"], ["constraints", "sensors sign"], ["constraints", "sensors sign", "sensors lines", "sensors surfaces", "BG nodes", "BG lines", "BG surfaces"], []]
    g2 = ("{[n |-> 2, form |-> f, order |-> o, map |-> m, cstr |-> c, sign |-> s, fault |-> \"none\", opt |-> op, lines |-> <<<<1, 2>>>>, lays |-> <<>>] : "
          "f \\in {\"row\", \"list\"}, o \\in {<<1, 2>>, <<2, 1>>}, m \\in {<<r1, r2>> : r1 \\in [1..3 -> %s], r2 \\in ROWS2A}, "
          "c \\in {<<<<1, -1>>>>, <<<<2, 0>>>>}, s \\in {<<<<1, 1, 1>>, <<1, 1, 1>>>>, <<<<-1, 0, 1>>, <<1, -1, 0>>>>}, op \\in %s}"
          % (cells, subsets_tla(OPT2, opt2[:3])))
    # without a constraints sheet the constraint matrix is empty and the mapping may not name constraints
    cells_nc = '{<<"s", 1>>, <<"s", 2>>, <<"z">>, <<"n">>}'
    g2b = ("{[n |-> 2, form |-> f, order |-> <<1, 2>>, map |-> m, cstr |-> <<>>, sign |-> <<<<1, 1, 1>>, <<1, 1, 1>>>>, fault |-> \"none\", opt |-> op, "
           "lines |-> <<<<1, 2>>>>, lays |-> <<>>] : f \\in {\"row\"}, m \\in {<<r1, r2>> : r1 \\in [1..3 -> %s], r2 \\in ROWS2B}, op \\in {{}, {\"sensors lines\"}}}" % cells_nc)
    g2 = g2.replace("ROWS2A", '{<<<<"s", 2>>, <<"c", 1>>, <<"z">>>>, <<<<"c", 1>>, <<"s", 1>>, <<"s", 2>>>>, <<<<"n">>, <<"z">>, <<"s", 1>>>>, '
                              '<<<<"s", 1>>, <<"s", 1>>, <<"n">>>>, <<<<"z">>, <<"z">>, <<"z">>>>}')
    g2b = g2b.replace("ROWS2B", '{<<<<"s", 2>>, <<"z">>, <<"n">>>>, <<<<"s", 1>>, <<"s", 2>>, <<"z">>>>, <<<<"z">>, <<"z">>, <<"z">>>>}')
    base_map = '<<<<<<"s", 1>>, <<"c", 1>>, <<"z">>>>, <<<<"n">>, <<"s", 2>>, <<"s", 1>>>>>>'
    g2f = ("{[n |-> 2, form |-> f, order |-> <<1, 2>>, map |-> %s, cstr |-> <<<<1, -1>>>>, sign |-> <<<<-1, 0, 1>>, <<1, -1, 0>>>>, fault |-> ft, "
           "opt |-> op, lines |-> <<<<1, 2>>>>, lays |-> <<>>] : f \\in {\"row\", \"list\", \"array\"}, ft \\in Faults2, op \\in %s}"
           % (base_map, subsets_tla(OPT2, opt2[:3])))
    consts = {"Kind": "geo2", "TableSets": Raw(g2 + " \\cup " + g2b + " \\cup " + g2f), "Faults1": set(FAULTS1), "Faults2": set(FAULTS2)}
    mod, cfg = ctx.model("Geo", "geo2", consts, invariants=["RejectIffMalformed", "ZeroBased", "RowKIsSensorK", "ZeroWhereNothingNamed"],
                         action_constraints=["Emit"], view="View")
    r = ctx.tlc(mod, cfg, raw=True)
    lines_ = sorted(r.transitions)
    cap2 = 8000 if quick else 120000
    if len(lines_) > cap2:
        rng = np.random.default_rng(ctx.seed + 2)
        ctx.extra["geo2_enumerated"] = len(lines_)
        lines_ = [lines_[i] for i in sorted(rng.choice(len(lines_), size=cap2, replace=False))]
    chunks = [("geo2", ch) for ch in core.chunks(lines_, max(1, len(lines_) // 64))]
    with mp.get_context("fork").Pool(16) as pool:
        for col in pool.map(_chunk, chunks):
            ctx.merge(col)
    ctx.exhaustive = False


def replay(ctx, body):
    col = core.Collector()
    (run_sites1 if body["kind"] == "geo1" else run_sites2)(col, body["ts"], body["out"])
    for k, w, _ in col.viol:
        print(k, w)
    return col.nviol == 0
