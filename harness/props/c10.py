# -*- coding: utf-8 -*-
"""
C10 - stability labels follow the soft criteria between consecutive orders.

spec    : Poles.tla, action Label (NeverStable, LabelsDecided, LabelsPure); focus "label"
binding : direction A.  Every table TLC enumerates is (i) handed to gen.SC_apply and (ii) injected as
          the (already filtered) pole table of a real SSIcov / pLSCF run (the functions that produce
          poles are patched in the harness process), and the returned / stored label table must be
          one of the label tables the specification admits (exact ties admit both labels).
"""
from __future__ import annotations

import json
import multiprocessing as mp

import numpy as np

from .. import core
from .. import poles_world as pw
from ..core import Raw

HC_OFF = dict(conj=False, xi_max=1.0, mpc_lim=0.0, mpd_lim=10.0, cov_max=1e9)


def cellset(fs, xis, shs):
    return Raw("{NaN} \\cup {[f |-> a, xi |-> b, sh |-> s, cj |-> TRUE, cov |-> 1] : a \\in {%s}, b \\in {%s}, s \\in {%s}}"
               % (", ".join(map(str, fs)), ", ".join(map(str, xis)), ", ".join(map(str, shs))))


def sc_tla(ordmin, ordmax, efn=(1, 100), exi=(5, 100), ephi=(3, 100)):
    return "[ordmin |-> %d, ordmax |-> %d, efn |-> <<%d, %d>>, exi |-> <<%d, %d>>, ephi |-> <<%d, %d>>]" % (
        ordmin, ordmax, *efn, *exi, *ephi)


def configs(tier):
    F3 = [10040, 10080, 10160]          # adjacent values pass err_fn = 1 %, the outer pair does not
    F4 = [10040, 10080, 10120, 10160]
    out = []
    # (i) adjacent columns: every pair of columns over the cell alphabet
    if tier == "quick":
        out.append(dict(name="pair2", nr=2, nc=2, cells=cellset(F3, [1000, 2000], [1, 3]), maps=["ssi", "plscf"],
                        scs=[(0, 1)]))
        out.append(dict(name="pair3", nr=3, nc=2, cells=cellset([10040, 10160], [1000], [1]) , maps=["ssi"],
                        scs=[(0, 1)]))
        out.append(dict(name="pair2c", nr=2, nc=2, cells=cellset([10040, 10080], [1000, 1030], [1, 2, 4]),
                        maps=["ssi"], scs=[(0, 1)]))
    else:
        out.append(dict(name="pair2", nr=2, nc=2, cells=cellset(F4, [1000, 1030, 2000], [1, 2, 3]),
                        maps=["ssi", "plscf"], scs=[(0, 1)]))
        out.append(dict(name="pair3", nr=3, nc=2, cells=cellset(F3, [1000, 2000], [1]), maps=["ssi", "plscf"],
                        scs=[(0, 1)]))
        out.append(dict(name="pair2c", nr=2, nc=2, cells=cellset([10040, 10080], [1000, 1030], [1, 2, 4, 5, 6]),
                        maps=["ssi"], scs=[(0, 1)]))
    # (i') nearly equidistant competitors in the previous order: 10.95 Hz lies 0.95 Hz above 10 Hz and 1.05 Hz below
    # 12 Hz - nearest in *frequency* is 10 Hz, nearest in relative terms (normalised by the candidate) is 12 Hz; with
    # a 15 % frequency tolerance both candidates pass on frequency, so the verdict hangs on which one is compared
    out.append(dict(name="equid", nr=2, nc=2, cells=cellset([10000, 10950, 12000], [1000, 2000], [1, 3]), maps=["ssi"],
                    scs=[(0, 1)], efn=(15, 100)))
    # (ii) placement of [ordmin, ordmax] and the first order over 5 columns, one-symbol alphabet
    out.append(dict(name="place", nr=1, nc=5, cells=cellset([10040], [1000], [1]), maps=["ssi", "plscf"],
                    scs="all"))
    return out


def ord_map(m, nc):
    return list(range(nc)) if m == "ssi" else list(range(1, nc + 1))


def check_case(col, cfgname, m, t):
    tab = t["pre"]["tab"]
    sc = t["act"]["sc"]
    adm = t["post"]["adm"]
    nc = len(tab[0])
    ct = pw.concrete(tab)
    tol = dict(err_fn=sc["efn"][0] / sc["efn"][1], err_xi=sc["exi"][0] / sc["exi"][1],
               err_phi=sc["ephi"][0] / sc["ephi"][1])

    def judge(lab, site):
        lab = np.asarray(lab)
        bad = []
        if lab.shape != (len(tab), nc):
            bad.append(("shape", lab.shape))
        else:
            for r in range(len(tab)):
                for c in range(nc):
                    a = adm[r][c]
                    v = int(lab[r, c])
                    if (a == 0 and v != 0) or (a == 1 and v != 1) or (a == 2 and v not in (0, 1)):
                        bad.append((r, c, v, a))
        if bad:
            first = bad[0]
            kind = "shape" if first[0] == "shape" else ("false_stable" if first[2] == 1 else "missed_stable")
            col.violation(f"{site}/{m}/{kind}",
                          f"{site} ({m} column map) labels {bad[:4]} (row, col, got, admissible) for table {tab} with {sc}",
                          {"config": cfgname, "map": m, "site": site, "transition": t})
        return not bad

    ok = True
    from pyoma2.functions import gen

    if m == "ssi":
        lab = gen.SC_apply(ct["Fn"].copy(), ct["Xi"].copy(), ct["Phi"].copy(), sc["ordmin"], sc["ordmax"], 1,
                           tol["err_fn"], tol["err_xi"], tol["err_phi"])
        ok &= judge(lab, "gen.SC_apply")
        col.count()
        if sc["ordmax"] <= nc - 1:
            # the class fixes the table width from ordmax: inject only when they agree
            pass
        if sc["ordmax"] == nc - 1:
            for cls_name in ("SSIcov", "SSIdat_MS"):          # the two copies of the labelling call (single / multi-setup run)
                alg = pw.run_class(cls_name, ct, ncols=nc, hc=HC_OFF, sc=tol, ordmin=sc["ordmin"])
                ok &= judge(alg.result.Lab, f"{cls_name}.run")
                col.count()
    else:
        if sc["ordmax"] == nc:
            for cls_name in ("pLSCF", "pLSCF_MS"):
                alg = pw.run_class(cls_name, ct, ncols=nc, hc=HC_OFF, sc=tol, ordmin=sc["ordmin"])
                ok &= judge(alg.result.Lab, f"{cls_name}.run")
                col.count()
    flat = [a for row in adm for a in row]
    if any(a in (1, 2) for a in flat) and any(a == 0 and not pw.is_nan(tab[r][c]) and c > 0
                                                for r, row in enumerate(adm) for c, a in enumerate(row)):
        col.mark_nontrivial((cfgname, m, tab, sc))
    elif cfgname == "place" and any(a == 1 for a in flat):
        col.mark_nontrivial((cfgname, m, tab, sc))
    if ok:
        col.sample({"config": cfgname, "column_map": m, "table": tab, "soft_criteria": sc, "admissible_labels": adm}, cap=1)


def _chunk(args):
    cfgname, m, lines = args
    col = core.Collector()
    for ln in lines:
        t = json.loads(ln)
        core.guarded(col, lambda: check_case(col, cfgname, m, t), "label", f"case {t}"[:600], {"config": cfgname, "map": m, "transition": t})
        col.traces += 1
    return col


def run(ctx):
    ge, le, mpc, mpd, margin = pw.indicator_tables()
    ctx.rule = ("every (table, tolerance/order-range) pair enumerated by TLC under focus 'label' is labelled by the real "
                "gen.SC_apply and by real SSIcov / pLSCF runs on injected tables; non-trivial: tables with at least one "
                "admissibly stable cell and one retained unstable cell (or, for the placement family, one stable cell); "
                "distinct by (config, column map, table, criteria)")
    ctx.trusted = ["TLC", "harness/poles_world.py (catalogue -> numpy tables, injection)", "exact rational MAC in Poles.tla"]
    ctx.assumptions = ["catalogue values sit >= 10 % away from every tolerance, so no comparison is borderline",
                       "step = 1 (step > 1 is broken in SSI_poles independently of this property)"]
    for c in configs(ctx.tier):
        for m in c["maps"]:
            nc = c["nc"]
            ords = ord_map(m, nc)
            if c["scs"] == "all":
                hi = nc - 1 if m == "ssi" else nc
                scs = [(a, hi) for a in range(0, hi + 1)] + ([(a, b) for a in range(0, hi + 1) for b in range(a, hi)]
                                                             if m == "ssi" else [])
            else:
                hi = nc - 1 if m == "ssi" else nc
                scs = [(0, hi)] + ([(hi, hi)] if True else [])
            consts = {
                "NR": c["nr"], "NC": nc, "Ord": ords,
                "Tables": Raw(f"[1..{c['nr']} -> [1..{nc} -> {c['cells']}]]"),
                "FDen": pw.FDEN, "XDen": pw.XDEN, "CDen": pw.CDEN, "Shapes": pw.shapes_tla(),
                "MpcGE": ge, "MpdLE": le, "HcSets": Raw("{}"),
                "ScSets": Raw("{" + ", ".join(sc_tla(a, b, efn=c.get("efn", (1, 100))) for a, b in scs) + "}"),
                "ExSets": Raw("{}"), "DrawSets": Raw("{}"), "Focus": "label",
            }
            mod, cfg = ctx.model("Poles", f"{c['name']}_{m}", consts,
                                 invariants=["NeverStable", "LabelsDecided", "ValuesUnchanged"], properties=["LabelsPure"],
                                 action_constraints=["Emit"], view="View")
            r = ctx.tlc(mod, cfg, raw=True)
            if len(r.transitions) != r.generated - r.initial:
                raise core.MachineryFailure("emitted transition count differs from TLC's")
            lines = r.transitions
            chunks = [(c["name"], m, ch) for ch in core.chunks(lines, max(1, len(lines) // 48))]
            with mp.get_context("fork").Pool(16) as pool:
                for col in pool.map(_chunk, chunks):
                    ctx.merge(col)
    ctx.exhaustive = True
    ctx.extra["indicator_margin"] = margin


def replay(ctx, body):
    col = core.Collector()
    check_case(col, body["config"], body["map"], body["transition"])
    for k, w, _ in col.viol:
        print(k, w)
    return col.nviol == 0
