# -*- coding: utf-8 -*-
"""
C07 - EFDD / FSDD recover frequency and damping of an exact SDOF spectral bell.

Spec:     Bell.tla decides the claim domain in exact integer arithmetic (bell resolved by the grid, periods and
          extrema in the half record, analysis band covering the bell inside the grid) and fixes the experiment plan
          Estimate -> Scale(g) -> Estimate with the property's tolerances.
Replay:   for every enumerated in-claim configuration the harness builds the analytic spectral matrix
          |H(f)|^2 phi phi^T + floor I  (continuous-time single-degree-of-freedom receptance, catalogue real shape)
          and runs the real second stage: fdd.EFDD_mpe directly and the EFDD / FSDD classes through a SingleSetup
          with the spectrum injected at fdd.SD_est.  Estimate at unit gain: MAC >= 0.999, |fn error| <= 2.5 %,
          |xi error| <= 15 %.  Estimate after Scale(g): equal to the unit-gain estimate (1e-9 relative).
          Numerical accuracy is delegated arithmetic: TLC contributes the domain, not the numbers.
"""
from __future__ import annotations

import contextlib
import json
import multiprocessing as mp

import numpy as np

from .. import core

FS = {1: 1.0, 2: 100.0, 3: 51.2}
GAINS = {0: 1.0, 1: 1e-17, 2: 7.3, 3: 2.5e4, 4: 1e-6, 5: 1e15}
# real catalogue shapes (no vanishing component, mixed signs), by channel count
SHAPES = {2: [1.0, -0.6], 3: [0.7, 1.0, -0.45], 4: [0.35, -0.8, 1.0, 0.55], 5: [1.0, 0.62, -0.3, -0.85, 0.5],
          6: [0.4, 0.75, 1.0, -0.9, -0.55, 0.3]}
FLOOR = 1e-9


def spectral_matrix(c):
    """analytic spectral density of one mode times its shape dyad, plus a negligible full-rank floor (peak of the bell = 1)"""
    fs = FS[c["fs"]]
    fn, xi = c["fn"] / 1000.0 * fs, c["xi"] / 1000.0
    nf = c["nxseg"] // 2 + 1
    freq = np.arange(nf) * fs / c["nxseg"]
    bell = 1.0 / ((fn ** 2 - freq ** 2) ** 2 + (2 * xi * fn * freq) ** 2)
    bell = bell / bell.max()
    phi = np.array(SHAPES[c["nch"]])
    Sy = bell[None, None, :] * np.outer(phi, phi)[:, :, None] + FLOOR * np.eye(c["nch"])[:, :, None]
    return freq, Sy.astype(complex), fn, xi, phi, 1.0 / fs


@contextlib.contextmanager
def injected_spectrum(freq, Sy):
    from pyoma2.functions import fdd as F

    saved = F.SD_est
    F.SD_est = lambda *a, **k: (freq.copy(), Sy.copy())
    try:
        yield
    finally:
        F.SD_est = saved


def estimate(site, c, g):
    """-> (fn, xi, phi) of the real code for configuration c with the spectral matrix multiplied by g"""
    from pyoma2 import algorithms as A
    from pyoma2.functions import fdd
    from pyoma2.setup import SingleSetup

    freq, Sy, fn, xi, phi, dt = spectral_matrix(c)
    Sy = Sy * g
    bw = 2 * xi * fn
    kw = dict(DF1=bw, DF2=c["mult"] * bw)
    if site == "fdd.EFDD_mpe":
        Fn, Xi, Phi, _ = fdd.EFDD_mpe(Sy, freq, dt, [fn], "per", method=c["method"], **kw)
    else:
        cls = A.EFDD if c["method"] == "EFDD" else A.FSDD
        alg = cls(name="a", nxseg=c["nxseg"], method_SD="per")
        ss = SingleSetup(np.zeros((16, c["nch"])), fs=1.0 / dt)
        ss.add_algorithms(alg)
        with injected_spectrum(freq, Sy):
            ss.run_by_name("a")
        ss.mpe("a", sel_freq=[fn], **kw)
        Fn, Xi, Phi = alg.result.Fn, alg.result.Xi, alg.result.Phi
    if np.size(Fn) != 1 or np.size(Xi) != 1 or np.ndim(Phi) != 2 or np.shape(Phi)[1] != 1:
        raise MalformedResult(f"one mode requested: Fn {np.shape(Fn)}, Xi {np.shape(Xi)}, Phi {np.shape(Phi)}")
    return float(np.ravel(Fn)[0]), float(np.ravel(Xi)[0]), np.asarray(Phi)[:, 0]


_UNIT = {}


def mac(a, b):
    return float(abs(np.vdot(a, b)) ** 2 / (np.vdot(a, a).real * np.vdot(b, b).real))


def check_case(col, t):
    c, est, g_id = t["cfg"], t["est"], t["gain"]
    if t["act"]["name"] != "Estimate":
        return
    _, _, fn, xi, phi, _ = spectral_matrix(c)
    sites = ["fdd.EFDD_mpe"]
    if c["fs"] != 3 or c["nch"] <= 3:                      # class path on a subset (same function underneath)
        sites.append(f"{c['method']}.mpe")
    for site in sites:
        rep = {"transition": t, "site": site}
        tag = f"{site}[{c['method']}]" if site == "fdd.EFDD_mpe" else site
        col.count()
        ck = (json.dumps(c, sort_keys=True), site)
        if ck not in _UNIT:                                     # (lines are sorted: the gains of one configuration are adjacent)
            if len(_UNIT) > 64:
                _UNIT.clear()
            _UNIT[ck] = core_call(col, lambda: estimate(site, c, 1.0), f"{tag}/raised", c, rep)
        f1, x1, p1 = _UNIT[ck]
        if f1 is None:
            continue
        if not est["same_as_unit_gain"]:
            bad = []
            m = mac(p1, phi)
            if not m >= est["mac_min_permille"] / 1000.0:
                bad.append(("shape", f"MAC with the true shape {m:.6f} < 0.999"))
            if not abs(f1 / fn - 1) <= est["fn_tol_permille"] / 1000.0:
                bad.append(("frequency", f"fn = {f1:.6g}, true {fn:.6g} ({100 * (f1 / fn - 1):+.2f} %, allowed 2.5 %)"))
            if not abs(x1 / xi - 1) <= est["xi_tol_permille"] / 1000.0:
                bad.append(("damping", f"xi = {x1:.5f}, true {xi:.5f} ({100 * (x1 / xi - 1):+.1f} %, allowed 15 %)"))
            for what, msg in bad:
                col.violation(f"{tag}/{what}", f"{tag}: {msg}; fn/fs = {c['fn']} per mille, xi = {c['xi']} per mille, nxseg = {c['nxseg']}, "
                              f"{c['nch']} channels, DF2 = {c['mult']} bandwidths, fs id {c['fs']} ({est['lines_in_bandwidth']} lines in the "
                              f"half-power band, {est['periods']} periods in the half record)", rep)
            if not bad:
                col.extra["max_fn_err_e4"] = max(col.extra.get("max_fn_err_e4", 0), int(abs(f1 / fn - 1) * 1e4))
                col.extra["max_xi_err_e4"] = max(col.extra.get("max_xi_err_e4", 0), int(abs(x1 / xi - 1) * 1e4))
                col.mark_nontrivial(json.dumps([c, site], sort_keys=True))
                col.sample({"configuration": c, "site": site, "fn_rel_err": f1 / fn - 1, "xi_rel_err": x1 / xi - 1}, cap=1)
        else:
            g = GAINS[g_id]
            fg, xg, pg = core_call(col, lambda: estimate(site, c, g), f"{tag}/raised_scaled", c, rep)
            if fg is None:
                continue
            if not (abs(fg - f1) <= 1e-9 * abs(f1) and abs(xg - x1) <= 1e-7 * abs(x1) and mac(pg, p1) > 1 - 1e-12):
                col.violation(f"{tag}/not_gain_invariant", f"{tag}: spectral matrix times {g}: fn {f1!r} -> {fg!r}, xi {x1!r} -> {xg!r}; "
                              f"configuration {c}", rep)
            else:
                col.mark_nontrivial(json.dumps([c, site, g_id], sort_keys=True))


class MalformedResult(Exception):
    pass


def core_call(col, fn, key, c, rep):
    """run the library; an exception raised below a pyoma2 frame is a violation (the claim says the estimates are returned)"""
    try:
        return fn()
    except MalformedResult as e:
        col.violation(key.replace("/raised", "/malformed_result"), f"{key}: {e} for in-claim configuration {c}", rep)
        return None, None, None
    except Exception as e:                                   # noqa: BLE001
        if core.library_raised(e):
            col.violation(key, f"{key}: the library raised {type(e).__name__}: {e} for in-claim configuration {c}", rep)
            return None, None, None
        raise


def _chunk(lines):
    import logging

    logging.disable(logging.CRITICAL)
    col = core.Collector()
    for ln in lines:
        check_case(col, json.loads(ln))
        col.traces += 1
    return col


def run(ctx):
    ctx.rule = ("every in-claim configuration of Bell.tla (fn/fs, damping, segment length, channels, method, analysis band, sampling "
                "rate) estimated by fdd.EFDD_mpe and by the EFDD / FSDD classes on the analytic spectral matrix, at unit gain and after "
                "multiplying the matrix by each catalogue gain; non-trivial: estimates within tolerance / equal after scaling; distinct "
                "by (configuration, call site, gain)")
    ctx.trusted = ["TLC", "numpy for the analytic spectral density |H(f)|^2 of a single-degree-of-freedom receptance"]
    ctx.assumptions = ["'exactly the analytic spectral density of one lightly damped mode' is read as the continuous-time receptance "
                       "|1 / (fn^2 - f^2 + 2 i xi fn f)|^2 sampled on the grid, peak normalised to 1, floor 1e-9 I",
                       "selected frequency = fn, first-stage band DF1 = one half-power bandwidth (the property does not quantify over them)",
                       "numerical accuracy is delegated to the conformance layer; the specification decides the claim domain only"]
    quick = ctx.tier == "quick"
    if quick:
        consts = {"FnPermille": {40, 75, 120, 180, 210, 250}, "XiPermille": {20, 35, 50}, "NxSegs": {1024, 8192}, "Chans": {2, 4},
                  "Methods": {"EFDD", "FSDD"}, "BandMult": {4, 8}, "FsIds": {1, 2}, "Gains": {1, 3}}
    else:
        consts = {"FnPermille": set(range(40, 251, 15)), "XiPermille": {20, 25, 30, 40, 50}, "NxSegs": {1024, 2048, 4096, 8192},
                  "Chans": {2, 3, 6}, "Methods": {"EFDD", "FSDD"}, "BandMult": {4, 6, 10}, "FsIds": {1, 2, 3}, "Gains": {1, 2, 3, 4, 5}}
    consts.update({"Sppk": 3, "Npmax": 20, "MinLines": 4, "MinPeriods": 30, "MinBandMult": 4})
    mod, cfg = ctx.model("Bell", "bell", consts,
                         invariants=["ClaimResolved", "ClaimPeriods", "ClaimExtrema", "ClaimBand", "ClaimRanges", "ScaledOnlyAfterUnit"],
                         properties=["GainFree"], action_constraints=["Emit"], view="View")
    r = ctx.tlc(mod, cfg, raw=True)
    if len(r.transitions) != r.generated - r.initial:
        raise core.MachineryFailure("emitted transition count differs from TLC's")
    lines = sorted(ln for ln in r.transitions if '"Estimate"' in ln)
    ctx.extra["in_claim_configurations"] = r.initial
    cap = 2500 if quick else 15000
    if len(lines) > cap:
        rng = np.random.default_rng(ctx.seed)
        ctx.extra["enumerated_estimates"] = len(lines)
        lines = [lines[i] for i in sorted(rng.choice(len(lines), size=cap, replace=False))]
        ctx.exhaustive = False
    chunks = list(core.chunks(lines, max(1, len(lines) // 128)))
    with mp.get_context("fork").Pool(16) as pool:
        for col in pool.map(_chunk, chunks):
            ctx.merge(col)


def replay(ctx, body):
    col = core.Collector()
    check_case(col, body["transition"])
    for k, w, _ in col.viol:
        print(k, w)
    return col.nviol == 0
