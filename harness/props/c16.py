# -*- coding: utf-8 -*-
"""
C16 - interactive pole picking hands over exactly the picked (frequency, order) pairs.

spec    : Pick.tla (Paired, Sorted, OrderIndependent, PickAddsOne, PickIsNearest,
          NoOpWithoutModifier, DeselectShrinksByOne, NearestGoes)
binding : direction A - every transition TLC explores is delivered as a synthetic matplotlib
          event to a real, head-less SelFromPlot dialog; after each event the selection lists
          and the marker artist are projected onto a multiset of <<frequency, order>> pairs.
          Hand-over: complete behaviours are replayed inside the real `mpe_from_plot` of
          SSIcov / pLSCF / FDD (dialog main loop scripted) and the extracted modes must be
          exactly the selected cells.
"""
from __future__ import annotations

import copy
import multiprocessing as mp

import numpy as np

from .. import core, headless, walk
from ..core import Raw

NAN = -1
Q = 0.25  # one table unit = 0.25 Hz


def tables(tier):
    t_ssi = [[NAN, 40, 40, 41], [NAN, NAN, 80, 80], [NAN, NAN, NAN, 82]]
    t_pl = [[40, 40, 41], [NAN, 80, 80], [NAN, NAN, 82]]
    t_dup = [[NAN, 40, 40, 40], [NAN, NAN, 80, 80], [NAN, 100, 80, NAN]]  # duplicate frequencies in one order
    fdd = [[4 * k] for k in range(0, 9)]
    xs = [38, 61, 81, 130]
    ys = [1, 5, 9, 14]
    out = [
        dict(name="ssi", variant="SSI", F=t_ssi, xs=xs, ys=ys, maxlen=3),
        dict(name="plscf", variant="pLSCF", F=t_pl, xs=xs, ys=[1, 5, 9], maxlen=3),
        dict(name="fdd", variant="FDD", F=fdd, xs=[1, 9, 14, 30], ys=[0], maxlen=3),
        # modifier already held: three clicks fit into three events (a new pick may have to move two slots)
        dict(name="ssi_held", variant="SSI", F=t_ssi, xs=[38, 81, 130], ys=[5, 9, 14], maxlen=3, init_shift=True, keys=[]),
        dict(name="plscf_held", variant="pLSCF", F=t_pl, xs=[38, 81, 130], ys=[1, 5, 9], maxlen=3, init_shift=True, keys=[]),
        # modifier held at the start and releasable: pick, release, click - a click without the modifier on a non-empty
        # selection (no effect whatever the button) fits into three events
        dict(name="ssi_release", variant="SSI", F=t_ssi, xs=[38, 81], ys=[5, 9], maxlen=3, init_shift=True, keys=["shift"]),
        dict(name="plscf_release", variant="pLSCF", F=t_pl, xs=[38, 81], ys=[1, 5], maxlen=3, init_shift=True, keys=["shift"]),
        dict(name="fdd_release", variant="FDD", F=fdd, xs=[9, 30], ys=[0], maxlen=3, init_shift=True, keys=["shift"]),
        # run parameter ordmin > 0 (the columns below it hold no poles): the picked order is still the table column
        dict(name="ssi_ordmin", variant="SSI", F=t_ssi, xs=[38, 81, 130], ys=[5, 9, 14], maxlen=3, init_shift=True, keys=[], ordmin=1),
        dict(name="plscf_ordmin", variant="pLSCF", F=[[NAN] + r for r in t_pl], xs=[38, 81, 130], ys=[5, 9, 14], maxlen=3, init_shift=True,
             keys=[], ordmin=1),
    ]
    if tier == "thorough":
        out = [
            dict(name="ssi", variant="SSI", F=t_ssi, xs=xs, ys=ys, maxlen=4),
            dict(name="ssi_dup_ties", variant="SSI", F=t_dup, xs=[38, 60, 90, 130], ys=[2, 6, 9, 13], maxlen=4),
            dict(name="plscf", variant="pLSCF", F=t_pl, xs=xs, ys=[1, 5, 9], maxlen=4),
            dict(name="fdd", variant="FDD", F=fdd, xs=[1, 9, 14, 30], ys=[0], maxlen=4),
            dict(name="ssi_sim6", variant="SSI", F=t_ssi, xs=xs, ys=ys, maxlen=6, simulate="num=1500"),
            dict(name="plscf_sim6", variant="pLSCF", F=t_pl, xs=xs, ys=[1, 5, 9], maxlen=6, simulate="num=800"),
            dict(name="fdd_sim6", variant="FDD", F=fdd, xs=[1, 9, 14, 30], ys=[0], maxlen=6, simulate="num=800"),
            dict(name="ssi_ordmin", variant="SSI", F=t_ssi, xs=xs, ys=ys, maxlen=4, ordmin=1),
            dict(name="plscf_ordmin", variant="pLSCF", F=[[NAN] + r for r in t_pl], xs=xs, ys=ys, maxlen=4, ordmin=1),
        ]
    return out


# ---- concrete algorithm objects with injected result tables -------------------------------
def cell_xi(r, c):
    return 0.001 * (1 + r + 10 * c)


def make_algo(t):
    from pyoma2 import algorithms as A
    from pyoma2.algorithms.data.result import FDDResult, SSIResult, pLSCFResult

    F = np.array(t["F"], dtype=float)
    nr, nc = F.shape
    Fn = np.where(F == NAN, np.nan, F * Q)
    data = np.zeros((16, 3))
    if t["variant"] == "FDD":
        alg = A.FDD(name="fdd", nxseg=16)
        alg._set_data(data, fs=16.0)
        freq = Fn[:, 0].copy()
        nf = len(freq)
        S_val = np.zeros((3, 3, nf))
        S_val[0, 0, :] = 10.0 + np.arange(nf) ** 2  # ratio s1/s2 strictly increasing with the line index
        S_val[1, 1, :] = 1.0
        S_val[2, 2, :] = 0.5
        S_vec = np.zeros((3, 3, nf), dtype=complex)
        for k in range(nf):
            S_vec[0, :, k] = [1.0, 0.1 * (k + 1), -0.05 * (k + 1)]
        alg.result = FDDResult(freq=freq, Sy=np.zeros((3, 3, nf), dtype=complex), S_val=S_val, S_vec=S_vec)
        return alg
    Xi = np.full((nr, nc), np.nan)
    Phi = np.full((nr, nc, 3), np.nan, dtype=complex)
    for r in range(nr):
        for c in range(nc):
            if np.isfinite(Fn[r, c]):
                Xi[r, c] = cell_xi(r, c)
                Phi[r, c, :] = [1.0, 0.01 * (r + 1), 0.01 * (c + 1)]
    Lab = np.where(np.isfinite(Fn), 1, 0)
    if t["variant"] == "SSI":
        alg = A.SSIcov(name="ssi", br=4, ordmax=nc - 1, ordmin=t.get("ordmin", 0))
        alg._set_data(data, fs=100.0)
        alg.result = SSIResult(Fn_poles=Fn, Xi_poles=Xi, Phi_poles=Phi, Lab=Lab)
    else:
        alg = A.pLSCF(name="pl", ordmax=nc, ordmin=t.get("ordmin", 0))
        alg._set_data(data, fs=100.0)
        alg.result = pLSCFResult(Fn_poles=Fn, Xi_poles=Xi, Phi_poles=Phi, Lab=Lab)
    return alg


# ---- projection ------------------------------------------------------------------------------
def qint(x):
    v = float(x) / Q
    return int(round(v)) if abs(v - round(v)) < 1e-9 else v


def project(d, variant):
    """-> (multiset of pairs from the lists, multiset of pairs from the marker artist, shift) or clause names"""
    if variant == "FDD":
        pairs = sorted([qint(f), 0] for f in d.sel_freq)
        mk = sorted([qint(x), 0] for x in np.atleast_1d(d.MARKER.get_xdata()))
        lists_ok = len(d.sel_freq) == len(d.freq_ind)
    else:
        lists_ok = len(d.sel_freq) == len(d.pole_ind)
        pairs = sorted([qint(f), int(o)] for f, o in zip(d.sel_freq, d.pole_ind))
        mk = sorted([qint(x), int(y)] for x, y in zip(np.atleast_1d(d.MARKER.get_xdata()),
                                                      np.atleast_1d(d.MARKER.get_ydata())))
    return pairs, mk, bool(d.shift_is_held), lists_ok


def make_check(t):
    variant = t["variant"]

    def check(col, snap, act, pre, posts, raised, path):
        pairs, mk, shift, lists_ok = snap.proj
        for i, post in enumerate(posts):
            bad = []
            if sorted(post["sel"]) != pairs:
                bad.append("selection")
            if sorted(post["sel"]) != mk:
                bad.append("marker")
            if post["shift"] != shift:
                bad.append("modifier")
            if not lists_ok:
                bad.append("parallel_lists")
            if not bad:
                # non-trivial: at least two picks out of frequency order, or a deselection on >= 2 entries
                clicks = [a for a in path if a["name"] == "Click"]
                if len(post["sel"]) >= 2 or (len(clicks) >= 2 and any(a["b"] in (2, 3) for a in clicks)):
                    col.mark_nontrivial((t["name"], [(a.get("b"), a.get("x"), a.get("y"), a.get("key")) for a in path]))
                if post["len"] == t["maxlen"]:
                    col.handover.append((path, post["sel"]))
                    col.sample({"table": t["name"], "events": path, "abstract_selection": post["sel"]})
                return i
        kind = "Click%d" % act["b"] if act["name"] == "Click" else act["name"]
        col.violation(f"{variant}/{kind}/{'+'.join(bad)}",
                      f"dialog {variant}: after events {path} lists give {pairs}, marker {mk}, shift={shift}; "
                      f"specification allows {[p['sel'] for p in posts]}",
                      {"table": t["name"], "path": path, "expected_posts": posts, "observed": pairs, "marker": mk})
        return None

    return check


class Col(core.Collector):
    def __init__(self):
        super().__init__()
        self.handover = []


# ---- hand-over ---------------------------------------------------------------------------------
def handover_case(t, events, sel):
    """Run the real mpe_from_plot with the events scripted; return list of mismatch clauses."""
    alg = make_algo(t)
    errors = []
    if t.get("init_shift"):
        events = [{"name": "KeyPress", "key": "shift"}] + list(events)
    with headless.scripted(events, Q, errors):
        try:
            if t["variant"] == "FDD":
                df = 1.0
                alg.mpe_from_plot(DF=df)
            else:
                alg.mpe_from_plot()
        except Exception as e:
            if not sel:
                return []  # nothing selected: extraction of nothing is not constrained
            return [f"raised:{type(e).__name__}"]
    F = np.array(t["F"])
    res = alg.result
    fn = np.atleast_1d(np.asarray(res.Fn, dtype=float)) if res.Fn is not None else np.array([])
    if t["variant"] == "FDD":
        got = sorted(qint(f) for f in fn)
        exp = sorted(p[0] for p in sel)
        return [] if got == exp else [f"extracted_lines:{got}!={exp}"]
    xi = np.atleast_1d(np.asarray(res.Xi, dtype=float))
    oo = np.atleast_1d(np.asarray(res.order_out)).astype(int) if res.order_out is not None else np.array([], dtype=int)
    if not (len(fn) == len(xi) == len(sel)) or (len(sel) and len(oo) != len(sel)):
        return [f"count:{len(fn)}/{len(xi)}/{len(oo)}!={len(sel)}"]
    got = sorted((qint(f), int(o), round(float(x), 9)) for f, o, x in zip(fn, oo, xi))
    # admissible cells for each selected pair (duplicates of a frequency within an order are interchangeable)
    remaining = [list(p) for p in sorted(sel)]
    for f, o, x in got:
        hit = None
        for p in remaining:
            if p[0] == f and p[1] == o:
                rows = [r for r in range(F.shape[0]) if F[r, o] == f]
                if any(abs(cell_xi(r, o) - x) < 1e-9 for r in rows):
                    hit = p
                    break
        if hit is None:
            return [f"extracted:{got}!=selected:{sorted(sel)}"]
        remaining.remove(hit)
    return []


def _handover_chunk(args):
    t, cases = args
    col = core.Collector()
    for events, sel in cases:
        bad = handover_case(t, events, sel)
        col.count()
        col.traces += 1
        if bad:
            col.violation(f"{t['variant']}/handover/{bad[0].split(':')[0]}",
                          f"mpe_from_plot ({t['variant']}) after events {events}: {bad}; selection was {sel}",
                          {"table": t["name"], "path": events, "handover": True, "selection": sel})
    return col


def run_table(ctx, t):
    F = t["F"]
    nr, nc = len(F), len(F[0])
    consts = {
        "F": Raw("<<" + ", ".join("<<" + ", ".join(str(v) for v in row) + ">>" for row in F) + ">>"),
        "NR": nr, "NC": nc, "Xs": set(t["xs"]), "Ys": set(t["ys"]),
        "Keys": (set(t["keys"]) if t.get("keys") else Raw("{}")) if "keys" in t else {"shift", "a"},
        "InitShift": bool(t.get("init_shift", False)), "MaxLen": t["maxlen"],
    }
    mod, cfg = ctx.model("Pick", t["name"], consts,
                         invariants=["Paired", "Sorted", "OrderIndependent"],
                         properties=["NoOpWithoutModifier", "DeselectShrinksByOne", "NearestGoes", "PickAddsOne",
                                     "PickIsNearest"],
                         action_constraints=["Emit"], view="View")
    kw = {}
    if t.get("simulate"):
        kw = dict(simulate=t["simulate"], depth=t["maxlen"], seed=ctx.seed, workers=1)
    r = ctx.tlc(mod, cfg, **kw)
    if not t.get("simulate") and len(r.transitions) != r.generated - r.initial:
        raise core.MachineryFailure("emitted transition count differs from TLC's")
    graph = walk.Graph(r.transitions)
    init = {"sel": [], "shift": bool(t.get("init_shift", False)), "len": 0}

    # One real dialog per process; a "world" is a snapshot of its abstract state (the parallel lists and the modifier
    # flag).  Before an event is delivered the snapshot is written back into the dialog and the dialog redraws its own
    # marker from it (as it does after every click), so every branch of the walk starts from a consistent dialog.
    shared = {}

    def dialog():
        if "d" not in shared:
            shared["d"] = headless.new_dialog(make_algo(t), t["variant"])
        return shared["d"]

    class Snap:
        def __init__(self, sel_freq, ind, shift):
            self.sel_freq, self.ind, self.shift = list(sel_freq), list(ind), shift
            self.proj = None

    def make_world():
        d = dialog()
        d.sel_freq, d.shift_is_held = [], False
        if d.plot == "FDD":
            d.freq_ind = []
        else:
            d.pole_ind = []
        if t.get("init_shift"):
            headless.fire(d, {"name": "KeyPress", "key": "shift"}, Q)
        return Snap(d.sel_freq, d.freq_ind if d.plot == "FDD" else d.pole_ind, d.shift_is_held)

    def apply(snap, act):
        d = dialog()
        d.sel_freq, d.shift_is_held = list(snap.sel_freq), snap.shift
        if d.plot == "FDD":
            d.freq_ind = list(snap.ind)
            d.plot_svPSD()
        else:
            d.pole_ind = list(snap.ind)
            d.plot_stab(d.plot)
        raised = False
        try:
            headless.fire(d, act, Q)
        except AssertionError:
            raise
        except Exception:
            raised = True
        new = Snap(d.sel_freq, d.freq_ind if d.plot == "FDD" else d.pole_ind, d.shift_is_held)
        new.proj = project(d, t["variant"])
        return new, raised

    def clone(snap):
        return Snap(snap.sel_freq, snap.ind, snap.shift)

    with headless.light_plots():
        cols = walk.walk_parallel(graph, init, make_world, apply, make_check(t), Col, merge=True, clone=clone)
    cases = []
    for col in cols:
        ctx.merge(col)
        cases.extend(col.handover)
    # hand-over on complete behaviours (all in the thorough tier, a seeded sample in the quick tier)
    rng = np.random.default_rng(ctx.seed)
    cap = 240 if ctx.tier == "quick" else 4000
    if len(cases) > cap:
        idx = rng.choice(len(cases), size=cap, replace=False)
        cases = [cases[i] for i in idx]
    ctx.extra[f"handover_cases_{t['name']}"] = len(cases)
    chunks = [(t, ch) for ch in core.chunks(cases, max(1, len(cases) // 32))]
    with mp.get_context("fork").Pool(16) as pool:
        for col in pool.map(_handover_chunk, chunks):
            ctx.merge(col)


def run(ctx):
    headless.install()
    ctx.rule = ("every transition of Pick.tla (all event sequences up to MaxLen over key press/release and clicks "
                "with 3 buttons on a coordinate lattice) delivered to a real head-less dialog; non-trivial: "
                "behaviours ending with >= 2 selected entries or containing a deselection after >= 2 clicks; "
                "distinct by (table, event sequence)")
    ctx.trusted = ["TLC", "harness/headless.py (Tk stand-ins, synthetic matplotlib events)", "matplotlib event objects"]
    ctx.assumptions = ["event.xdata is a numpy float (as matplotlib delivers it)",
                       "exact ties (equidistant orders / poles) may resolve either way",
                       "the diagram drawing inside the dialog is stubbed during the walk (C20 covers it); the "
                       "selection marker is the dialog's own"]
    for t in tables(ctx.tier):
        run_table(ctx, t)
    # direction B: recorded runs of the real dialog (longer sequences, larger tables) validated against TracePick.tla
    from . import trace_pick

    trace_pick.run(ctx)
    ctx.exhaustive = True


def replay(ctx, body):
    headless.install()
    if body.get("ptrace"):
        from . import trace_pick

        r = trace_pick.validate_one((0, body["trace_json"], ctx.scratch))
        print(r)
        return bool(r.get("accepted"))
    ts = {t["name"]: t for tier in ("quick", "thorough") for t in tables(tier)}
    t = ts[body["table"]]
    if body.get("handover"):
        bad = handover_case(t, body["path"], body["selection"])
        print("hand-over mismatches:", bad)
        return not bad
    d = headless.new_dialog(make_algo(t), t["variant"])
    for ev in body["path"]:
        try:
            headless.fire(d, ev, Q)
        except Exception as e:
            print("handler raised", repr(e))
    pairs, mk, shift, ok = project(d, t["variant"])
    print("observed lists", pairs, "marker", mk, "allowed", [p["sel"] for p in body["expected_posts"]])
    return any(sorted(p["sel"]) == pairs == mk for p in body["expected_posts"])
