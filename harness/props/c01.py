# -*- coding: utf-8 -*-
"""
C01 - SSI recovers exact modal parameters from noise-free free-vibration data.

spec    : Ident.tla, pipelines "single" and "real" - ExactAtTrueOrder, BlockRowsAdmissible, ObservablePrecondition,
          EnoughBlockColumns; the prediction is which catalogue modes sit in the order-2m column and how often
binding : direction A (see ident.py): TLC enumerates systems (subsets of a 10-mode catalogue), channel counts, every
          ordered reference list that keeps the system observable, block rows from the minimum upward, both Hankel
          methods and both realisation routines; the harness synthesises the free decay (or an exact rank-2m Hankel
          matrix), runs build_hank -> SSI_fast | SSI -> SSI_poles -> SSI_mpe and SingleSetup + SSIcov / SSIdat (run, mpe)
          and maps the order-2m column onto catalogue ids.
"""
from . import ident


def run(ctx):
    ctx.rule = ("every (system, channel count, observable ordered reference list, block rows, Hankel method, routine) case of "
                "Ident.tla (sampled above the cap with the run's seed) identified from synthesised free decays and exact "
                "rank-2m Hankel matrices; non-trivial: >= 2 modes and fewer references than channels; distinct by case")
    ctx.trusted = ["TLC", "numpy synthesis of the free decay", "closeness thresholds 1e-6 / 1e-6 / 1e-8"]
    ctx.assumptions = ["closeness to a catalogue mode: |df|/f <= 1e-6, |dxi| <= 1e-6, 1 - MAC <= 1e-8",
                       "cases whose generated Hankel matrix is ill conditioned (sigma_2m / sigma_1 < 1e-7) are skipped and counted"]
    ident.run_c01(ctx)
    ctx.exhaustive = False
    ctx.extra["exhaustive_note"] = "TLC enumerates the whole space; replay is exhaustive below the cap and seeded-sampled above it"


def replay(ctx, body):
    return ident.replay(ctx, body)
