# -*- coding: utf-8 -*-
"""
C06 - FDD picks the dominant line in the band and its singular vector.

spec    : Fdd.tla - Pick (PickInBand, PickIsArgmax, SharpIsUnique, SomeAnswer), Decompose
          (ValuesNonIncreasing)
binding : direction A.  (i) every (singular-value table, selected frequency, DF) case TLC enumerates is
          handed to fdd.FDD_mpe and to FDD.mpe / FDD_MS.mpe with the tables injected as results; the
          returned frequency must be one of the admissible grid lines and the returned shape the
          (normalised) first singular vector stored for that line.  (ii) decomposition: spectral
          matrices P diag(d) P^T with distinct integers d -> stored values are d sorted (or their roots),
          vectors the matching unit vectors.  (iii) end-to-end on generated data (FDD, FDD_MS, EFDD,
          FSDD through setups): the stored decomposition is faithful at every line and, for sinusoids
          with Gaussian-integer complex amplitudes at a grid line, the extracted shape has MAC 1 with the
          amplitude vector and not with its conjugate; the frequency picked by the first stage of
          EFDD/FSDD is an admissible line of the specification for the run's own singular values.
"""
from __future__ import annotations

import itertools
import json
import multiprocessing as mp

import numpy as np

from .. import core
from ..core import Raw

DFREQ = 0.25        # Hz per line
Q = DFREQ / 4       # Hz per quarter-line unit


def configs(tier):
    r4 = "{<<1, 1, 1>>, <<2, 1, 1>>, <<3, 1, 1>>, <<4, 1, 1>>}"
    r6 = "{<<1, 1, 1>>, <<2, 1, 1>>, <<3, 1, 1>>, <<4, 1, 1>>, <<2, 2, 1>>, <<4, 2, 1>>, <<4, 3, 2>>}"
    if tier == "quick":
        return [
            dict(name="g6", nl=6, alpha=r4, sels=[4, 9, 10, 15], dfs=[4, 6, 8]),
            dict(name="g7edge", nl=7, alpha="{<<1, 1, 1>>, <<3, 1, 1>>, <<4, 2, 1>>}", sels=[0, 2, 20, 23], dfs=[4, 8]),
        ]
    return [
        dict(name="g6", nl=6, alpha=r6, sels=[4, 9, 10, 15], dfs=[4, 6, 8]),
        dict(name="g8", nl=8, alpha=r4, sels=[8, 13, 14, 19], dfs=[4, 5, 8, 12]),
        dict(name="g7edge", nl=7, alpha=r4, sels=[0, 2, 20, 23, 24], dfs=[4, 8, 12]),
    ]


def vec_of(k):
    v = np.array([1.0 + 0j, 0.1 * (k + 1) + 0.05j * (k + 2), -0.3 + 0.02j * (k + 1)])
    return v


def tables_of(sv):
    nl = len(sv)
    n = len(sv[0])
    S_val = np.zeros((n, n, nl))
    S_vec = np.zeros((n, n, nl), dtype=complex)
    for k in range(nl):
        for i in range(n):
            S_val[i, i, k] = sv[k][i]
        S_vec[0, :, k] = vec_of(k) * (2.0 - 0.5j)      # un-normalised on purpose
        S_vec[1, :, k] = [0, 1, 0]
        S_vec[2, :, k] = [0, 0, 1]
    freq = np.arange(nl) * DFREQ
    return S_val, S_vec, freq


SITES = ["fdd.FDD_mpe", "FDD.mpe", "FDD_MS.mpe"]


def call_site(site, S_val, S_vec, freq, sel, DF):
    from pyoma2 import algorithms as A
    from pyoma2.algorithms.data.result import FDDResult
    from pyoma2.functions import fdd

    if site == "fdd.FDD_mpe":
        return fdd.FDD_mpe(S_val.copy(), S_vec.copy(), freq.copy(), [sel], DF=DF)
    k = A.FDD if site.startswith("FDD.") else A.FDD_MS
    alg = k(name="x", nxseg=2 * (len(freq) - 1))
    if k is A.FDD:
        alg._set_data(np.zeros((8, 3)), fs=2 * freq[-1])
    else:
        alg._set_data([{"ref": np.zeros((1, 8)), "mov": np.zeros((2, 8))}], fs=2 * freq[-1])
    alg.result = FDDResult(freq=freq.copy(), Sy=np.zeros((3, 3, len(freq)), dtype=complex), S_val=S_val.copy(), S_vec=S_vec.copy())
    alg.mpe(sel_freq=[sel], DF=DF)
    return alg.result.Fn, alg.result.Phi


def check_pick(col, cfgname, t, only=None):
    sv, act, out = t["sv"], t["act"], t["out"]
    S_val, S_vec, freq = tables_of(sv)
    sel, DF = act["sel"] * Q, act["df"] * Q
    adm = sorted(out["lines"])
    for site in (only or SITES):
        col.count()
        try:
            Fn, Phi = call_site(site, S_val, S_vec, freq, sel, DF)
        except Exception as e:
            col.violation(f"{site}/raised:{type(e).__name__}", f"{site} raised {e!r} for sv={sv} sel={act['sel']} df={act['df']}",
                          {"config": cfgname, "transition": t, "site": site})
            continue
        Fn = np.atleast_1d(Fn)
        k = int(round(float(Fn[0]) / DFREQ)) if len(Fn) == 1 else -1
        bad = None
        if len(Fn) != 1 or abs(Fn[0] - k * DFREQ) > 1e-12 or not (0 <= k < len(sv)):
            bad = ("not_a_grid_line", f"returned {Fn!r}")
        elif abs(4 * k - act["sel"]) > act["df"] + 4:
            bad = ("outside_band", f"returned line {k}, band is {act['sel']}+-{act['df']} quarter-lines")
        elif k not in adm:
            last = len(sv) - 1
            if k in out["trunc"] and act["sel"] + act["df"] >= 4 * last:
                # the band reaches the end of the grid and the only admissible answer is the last (Nyquist) line
                bad = ("nyquist_line_excluded", f"returned line {k} (admissible {adm}): dominant only if the last grid line {last} is not a candidate")
            else:
                bad = ("not_the_dominant_line", f"returned line {k}, admissible {adm} (ratios {[s[0] / s[1] for s in sv]})")
        else:
            v = vec_of(k)
            v = v / v[np.argmax(np.abs(v))]
            got = np.asarray(Phi)[:, 0] if np.asarray(Phi).ndim == 2 else np.asarray(Phi)
            if got.shape != v.shape or not np.allclose(got, v, rtol=1e-12, atol=1e-14):
                bad = ("wrong_vector", f"shape {got} is not the normalised first singular vector of line {k}")
        if bad:
            col.violation(f"{site}/{bad[0]}", f"{site}: {bad[1]}; sv={sv} sel={act['sel']} df={act['df']}",
                          {"config": cfgname, "transition": t, "site": site})
    if out["sharp"] and len({s[0] * 12 // s[1] for s in sv}) > 1:
        col.mark_nontrivial((cfgname, sv, act["sel"], act["df"]))
        col.sample({"config": cfgname, "singular_values": sv, "sel": act["sel"], "df": act["df"], "admissible_lines": adm}, cap=1)
    if not out["sharp"]:
        col.bump("weakly_judged_cases")


def check_decomp(col, cfgname, t):
    from pyoma2.functions import fdd

    sv, act, out = t["sv"], t["act"], t["out"]
    p = [x - 1 for x in act["perm"]]
    n = len(p)
    nl = len(sv)
    Sy = np.zeros((n, n, nl), dtype=complex)
    for k in range(nl):
        for i in range(n):
            Sy[p[i], p[i], k] = sv[k][i]
    S_val, S_vec = fdd.SD_svalsvec(Sy)
    col.count()
    bad = None
    if np.shape(S_val) != (n, n, nl) or np.shape(S_vec) != (n, n, nl):
        col.violation("fdd.SD_svalsvec/layout", f"SD_svalsvec: tables of shape {np.shape(S_val)} / {np.shape(S_vec)} for a "
                      f"{(n, n, nl)} spectral matrix; d={sv} perm={act['perm']}", {"config": cfgname, "transition": t, "decomp": True})
        return
    for k in range(nl):
        vals = np.array([S_val[i, i, k] for i in range(n)])
        exp = np.array(out["vals"][k], dtype=float)
        if not (np.allclose(vals, exp, rtol=1e-12) or np.allclose(vals, np.sqrt(exp), rtol=1e-12)):
            bad = ("values", f"line {k}: stored {vals}, expected {exp} or their square roots")
            break
        off = S_val[:, :, k] - np.diag(np.diag(S_val[:, :, k]))
        if np.abs(off).max() > 0:
            bad = ("values_layout", f"line {k}: off-diagonal entries in the stored singular values")
            break
        for i in range(n):
            ch = out["order"][k][i] - 1
            v = S_vec[i, :, k]
            if abs(abs(v[ch]) - 1) > 1e-12 or np.abs(np.delete(v, ch)).max() > 1e-12:
                bad = ("vectors", f"line {k}: vector {i} is {v}, expected the unit vector of channel {ch}")
                break
        if bad:
            break
    if bad:
        col.violation(f"fdd.SD_svalsvec/{bad[0]}", f"SD_svalsvec: {bad[1]}; d={sv} perm={act['perm']}",
                      {"config": cfgname, "transition": t, "decomp": True})
    col.mark_nontrivial((cfgname, sv, act["perm"]))
    col.sample({"config": cfgname, "diagonal": sv, "perm": act["perm"], "expected": out}, cap=1)


def _chunk(args):
    cfgname, kind, lines = args
    col = core.Collector()
    for ln in lines:
        t = json.loads(ln)
        core.guarded(col, lambda: (check_pick if kind == "pick" else check_decomp)(col, cfgname, t), kind, f"case {t}"[:600],
                     {"config": cfgname, "kind": kind, "transition": t})
        col.traces += 1
    return col


def fdd_consts(**kw):
    base = {"NL": 1, "SvTables": Raw("{}"), "Sels": Raw("{}"), "DFs": Raw("{}"), "NCurves": Raw("{}"),
            "Perms": Raw("{}"), "Focus": "pick"}
    base.update(kw)
    return base


# ---- end-to-end on generated data ------------------------------------------------------------------
AMPS = [[(3, 1), (-1, 2), (2, -2)], [(2, 0), (1, 3), (-3, 1)], [(1, -2), (2, 2), (0, 3)]]


def mac(a, b):
    return abs(np.vdot(a, b)) ** 2 / (np.vdot(a, a).real * np.vdot(b, b).real)


def faithful(res, tag, col, rep):
    """values non-negative, non-increasing; vectors unitary; U S U^H reproduces Sy (values or their squares)"""
    Sy, Sv, Uv = np.asarray(res.Sy), np.asarray(res.S_val), np.asarray(res.S_vec)
    nf = Sy.shape[2]
    bad = None
    for k in range(nf):
        s = np.diag(Sv[:, :, k])
        if (s < 0).any():
            bad = "negative_values"
        elif (np.diff(s) > 1e-12 * max(s.max(), 1e-300)).any():
            bad = "not_non_increasing"
        U = Uv[:, :, k]
        if bad is None and Sy.shape[0] == Sy.shape[1]:
            if np.abs(U @ U.conj().T - np.eye(U.shape[0])).max() > 1e-9:
                bad = "not_unitary"
            else:
                # rows of the stored matrix are conjugated left singular vectors: Sy = U1 diag(S) V^H with U1 = U^H
                U1 = U.conj().T
                ok = False
                for vals in (s, s**2):
                    # left singular vectors and values determine Sy Sy^H = U1 diag(vals^2) U1^H
                    if np.allclose(U1 @ np.diag(vals**2) @ U1.conj().T, Sy[:, :, k] @ Sy[:, :, k].conj().T,
                                   rtol=1e-8, atol=1e-10 * (vals.max() ** 2 + 1e-300)):
                        ok = True
                if not ok:
                    bad = "does_not_reproduce_Sy"
        if bad:
            col.violation(f"{tag}/decomposition/{bad}", f"{tag}: stored decomposition at line {k}: {bad}", rep)
            return False
    return True


def end_to_end(ctx):
    from pyoma2 import algorithms as A
    from pyoma2.functions import fdd
    from pyoma2.setup import MultiSetup_PreGER, SingleSetup

    col = core.Collector()
    rng = np.random.default_rng(ctx.seed)
    fs, nxseg, n = 64.0, 256, 256 * 24
    t = np.arange(n) / fs
    lines = [20, 41, 77] if ctx.tier == "quick" else [12, 20, 33, 41, 60, 77, 101]
    cases = list(itertools.product(range(len(AMPS)), lines))
    for ai, line in cases:
        amp = np.array([complex(a, b) for a, b in AMPS[ai]])
        f0 = line * fs / nxseg
        x = np.real(amp[None, :] * np.exp(2j * np.pi * f0 * t)[:, None]) + 1e-3 * rng.standard_normal((n, 3))
        rep = {"e2e": True, "amp": AMPS[ai], "line": line}
        # single setup: FDD, EFDD (first stage), FSDD
        ss = SingleSetup(x, fs=fs)
        algs = [A.FDD(name="fdd", nxseg=nxseg, method_SD="per", pov=0.5),
                A.FDD(name="fddc", nxseg=nxseg, method_SD="cor"),
                A.EFDD(name="efdd", nxseg=nxseg, method_SD="per", pov=0.5),
                A.FSDD(name="fsdd", nxseg=nxseg, method_SD="per", pov=0.5)]
        ss.add_algorithms(*algs)
        ss.run_all()
        for a in algs:
            col.count()
            if not faithful(a.result, type(a).__name__ + "." + a.run_params.method_SD, col, rep):
                continue
            df = fs / nxseg
            spy = {}
            if isinstance(a, A.EFDD):
                orig = fdd.FDD_mpe

                def wrapped(*aa, **kk):
                    r = orig(*aa, **kk)
                    spy["Fn"], spy["Phi"] = r
                    return r

                fdd.FDD_mpe = wrapped
                try:
                    a.mpe(sel_freq=[f0 + 0.25 * df], DF1=2 * df, DF2=16 * df, sppk=1, npmax=6)
                except Exception as e:
                    spy["err"] = repr(e)
                finally:
                    fdd.FDD_mpe = orig
                fn = spy.get("Fn")
                phi = a.result.Phi if a.result.Phi is not None else spy.get("Phi")
            else:
                a.mpe(sel_freq=[f0 + 0.25 * df], DF=2 * df)
                fn, phi = a.result.Fn, a.result.Phi
            tag = type(a).__name__ + "." + a.run_params.method_SD
            if fn is None or phi is None:
                col.violation(f"{tag}/e2e/no_result", f"{tag}: no first-stage result ({spy.get('err')})", rep)
                continue
            if np.size(fn) != 1 or np.ndim(phi) != 2 or np.shape(phi) != (3, 1):
                col.violation(f"{tag}/e2e/result_shape", f"{tag}: one frequency selected on three channels, Fn has shape {np.shape(fn)}, "
                              f"Phi {np.shape(phi)}", rep)
                continue
            ph = np.asarray(phi)[:, 0]
            k = int(round(float(np.atleast_1d(fn)[0]) / df))
            if k != line:
                col.violation(f"{tag}/e2e/line", f"{tag}: picked line {k}, the sinusoid sits at line {line}", rep)
            m1, m2 = mac(ph, amp), mac(ph, amp.conj())
            if not (m1 > (1 - 1e-6 if a.run_params.method_SD == 'per' else 0.99) and m2 < 0.9):
                col.violation(f"{tag}/e2e/conjugation", f"{tag}: MAC with amplitudes {m1:.6f}, with their conjugate {m2:.6f}", rep)
            if abs(abs(ph[np.argmax(np.abs(ph))]) - 1) > 1e-12:
                col.violation(f"{tag}/e2e/normalisation", f"{tag}: largest component of the shape is not 1", rep)
            col.mark_nontrivial(("e2e", tag, ai, line))
        # multi setup (two setups cut from the same recording, reference channel 0)
        ms = MultiSetup_PreGER(fs=fs, ref_ind=[[0, 1], [0, 1]], datasets=[x[:, [0, 1, 2]], x[:, [0, 1, 2]]])
        am = A.FDD_MS(name="fddms", nxseg=nxseg, method_SD="per", pov=0.5)
        ms.add_algorithms(am)
        ms.run_all()
        col.count()
        am.mpe(sel_freq=[f0], DF=2 * fs / nxseg)
        if am.result.Fn is None or am.result.Phi is None or np.size(am.result.Fn) != 1 or np.shape(am.result.Phi) != (4, 1):
            col.violation("FDD_MS/e2e/result_shape", f"FDD_MS: one frequency selected on four sensors, Fn {np.shape(am.result.Fn)}, "
                          f"Phi {np.shape(am.result.Phi)}", rep)
            continue
        ph = np.asarray(am.result.Phi)[:, 0]
        full = np.array([amp[0], amp[1], amp[2], amp[2]])
        k = int(round(float(am.result.Fn[0]) / (fs / nxseg)))
        if k != line:
            col.violation("FDD_MS/e2e/line", f"FDD_MS: picked line {k}, the sinusoid sits at line {line}", rep)
        if not (mac(ph, full) > 1 - 1e-6 and mac(ph, full.conj()) < 0.9):
            col.violation("FDD_MS/e2e/conjugation", f"FDD_MS: MAC with amplitudes {mac(ph, full):.6f}, conj {mac(ph, full.conj()):.6f}", rep)
        col.mark_nontrivial(("e2e", "FDD_MS", ai, line))
        # first stage of EFDD_MS on the same multi-setup object
        em = A.EFDD_MS(name="efddms", nxseg=nxseg, method_SD="per", pov=0.5)
        ms.add_algorithms(em)
        ms.run_by_name("efddms")
        col.count()
        spy, orig = {}, fdd.FDD_mpe

        def wrapped_ms(*aa, **kk):
            r = orig(*aa, **kk)
            spy["Fn"], spy["Phi"] = r
            return r

        fdd.FDD_mpe = wrapped_ms
        try:
            em.mpe(sel_freq=[f0 + 0.25 * fs / nxseg], DF1=2 * fs / nxseg, DF2=16 * fs / nxseg, sppk=1, npmax=6)
        except Exception as e:
            spy["err"] = repr(e)
        finally:
            fdd.FDD_mpe = orig
        if "Fn" not in spy:
            col.violation("EFDD_MS/e2e/no_result", f"EFDD_MS: no first-stage result ({spy.get('err')})", rep)
        else:
            phi = em.result.Phi if em.result.Phi is not None else spy["Phi"]
            ph = np.asarray(phi)[:, 0]
            k = int(round(float(np.atleast_1d(spy["Fn"])[0]) / (fs / nxseg)))
            if k != line:
                col.violation("EFDD_MS/e2e/line", f"EFDD_MS: first stage picked line {k}, the sinusoid sits at line {line}", rep)
            if not (mac(ph, full) > 1 - 1e-6 and mac(ph, full.conj()) < 0.9):
                col.violation("EFDD_MS/e2e/conjugation", f"EFDD_MS: MAC with amplitudes {mac(ph, full):.6f}, conj {mac(ph, full.conj()):.6f}", rep)
            col.mark_nontrivial(("e2e", "EFDD_MS", ai, line))
    # two tones: a four times stronger neighbour six lines above the selected one, inside DF2 but outside DF1 - the first
    # stage of EFDD / FSDD / EFDD_MS must pick inside sel +- DF1
    df = fs / nxseg
    for ai, line in [(0, lines[0]), (1 % len(AMPS), lines[-1])]:
        amp = np.array([complex(a, b) for a, b in AMPS[ai]])
        amp_b = 4 * np.array([1.0, -2.0 + 1j, 0.5j])
        f0, f1 = line * df, (line + 6) * df
        x = (np.real(amp[None, :] * np.exp(2j * np.pi * f0 * t)[:, None]) + np.real(amp_b[None, :] * np.exp(2j * np.pi * f1 * t)[:, None])
             + 1e-3 * rng.standard_normal((n, 3)))
        rep = {"e2e": True, "two_tone": True, "amp": AMPS[ai], "line": line}
        ss = SingleSetup(x, fs=fs)
        ms = MultiSetup_PreGER(fs=fs, ref_ind=[[0, 1], [0, 1]], datasets=[x[:, [0, 1, 2]], x[:, [0, 1, 2]]])
        a1, a2 = A.EFDD(name="efdd", nxseg=nxseg, method_SD="per", pov=0.5), A.FSDD(name="fsdd", nxseg=nxseg, method_SD="per", pov=0.5)
        a3 = A.EFDD_MS(name="efddms", nxseg=nxseg, method_SD="per", pov=0.5)
        ss.add_algorithms(a1, a2)
        ss.run_all()
        ms.add_algorithms(a3)
        ms.run_all()
        for a, want in ((a1, amp), (a2, amp), (a3, np.array([amp[0], amp[1], amp[2], amp[2]]))):
            tag = type(a).__name__
            col.count()
            spy, orig = {}, fdd.FDD_mpe

            def wrapped2(*aa, **kk):
                r = orig(*aa, **kk)
                spy["Fn"], spy["Phi"] = r
                return r

            fdd.FDD_mpe = wrapped2
            try:
                a.mpe(sel_freq=[f0], DF1=2 * df, DF2=16 * df, sppk=1, npmax=6)
            except Exception as e:
                spy["err"] = repr(e)
            finally:
                fdd.FDD_mpe = orig
            if "Fn" not in spy:
                col.violation(f"{tag}/e2e/no_result", f"{tag}: no first-stage result ({spy.get('err')})", rep)
                continue
            k = int(round(float(np.atleast_1d(spy["Fn"])[0]) / df))
            if abs(k - line) > 2:
                col.violation(f"{tag}/e2e/first_stage_outside_DF1", f"{tag}: first stage picked line {k}; selected line {line}, DF1 = 2 lines "
                              f"(a stronger tone sits at line {line + 6}, inside DF2 = 16 lines)", rep)
                continue
            phi = a.result.Phi if a.result.Phi is not None else spy["Phi"]
            ph = np.asarray(phi)[:, 0]
            if not mac(ph, want) > 0.999:
                col.violation(f"{tag}/e2e/shape_of_another_line", f"{tag}: returned shape has MAC {mac(ph, want):.4f} with the amplitudes of the "
                              f"selected tone (line {line}); neighbour at line {line + 6}", rep)
            col.mark_nontrivial(("e2e2", tag, ai, line))
    col.traces = len(cases)
    col.sample({"end_to_end": "sinusoid", "amplitudes": AMPS[0], "line": lines[0], "nxseg": nxseg, "fs": fs}, cap=1)
    ctx.merge(col)
    ctx.extra["end_to_end_cases"] = len(cases)


def run(ctx):
    ctx.rule = ("every (singular-value table, selected frequency, DF) case of Fdd.tla handed to FDD_mpe and to FDD.mpe / "
                "FDD_MS.mpe with injected results; every permuted-diagonal spectral matrix handed to SD_svalsvec; sinusoid "
                "records analysed through FDD / FSDD / FDD_MS setups. Non-trivial: cases with a sharp verdict and at "
                "least two different ratios; distinct by (config, table, sel, DF)")
    ctx.trusted = ["TLC", "exact ratio comparison in Fdd.tla", "numpy MAC of the returned shape"]
    ctx.assumptions = ["a line within one spacing of a band limit may or may not be in the band (any interval between the "
                       "narrowest and the widest reading is a reading)",
                       "stored singular values may be the values or, consistently, their square roots"]
    for c in configs(ctx.tier):
        consts = fdd_consts(NL=c["nl"], SvTables=Raw(f"[1..{c['nl']} -> {c['alpha']}]"), Sels=set(c["sels"]),
                            DFs=set(c["dfs"]), Focus="pick")
        mod, cfg = ctx.model("Fdd", "pick_" + c["name"], consts,
                             invariants=["PickInBand", "PickIsArgmax", "SharpIsUnique", "SomeAnswer"],
                             action_constraints=["Emit"], view="View")
        r = ctx.tlc(mod, cfg, raw=True)
        if len(r.transitions) != r.generated - r.initial:
            raise core.MachineryFailure("emitted transition count differs from TLC's")
        chunks = [(c["name"], "pick", ch) for ch in core.chunks(r.transitions, max(1, len(r.transitions) // 64))]
        with mp.get_context("fork").Pool(16) as pool:
            for col in pool.map(_chunk, chunks):
                ctx.merge(col)
    # decomposition: diagonals of distinct integers, every permutation of 3 channels
    dset = "{<<5, 3, 1>>, <<2, 7, 4>>, <<1, 2, 9>>, <<6, 1, 3>>}"
    perms = "{" + ", ".join("<<%d, %d, %d>>" % p for p in itertools.permutations((1, 2, 3))) + "}"
    consts = fdd_consts(NL=2, SvTables=Raw(f"[1..2 -> {dset}]"), Perms=Raw(perms), Focus="decomp")
    mod, cfg = ctx.model("Fdd", "decomp", consts, invariants=["ValuesNonIncreasing"], action_constraints=["Emit"], view="View")
    r = ctx.tlc(mod, cfg, raw=True)
    for col in [_chunk(("decomp", "decomp", r.transitions))]:
        ctx.merge(col)
    end_to_end(ctx)
    ctx.exhaustive = True


def replay(ctx, body):
    col = core.Collector()
    if body.get("e2e"):
        print("end-to-end cases are re-run as a whole:")
        end_to_end(ctx)
        return ctx.violations == 0
    if body.get("decomp"):
        check_decomp(col, body["config"], body["transition"])
    else:
        check_pick(col, body["config"], body["transition"], only=[body["site"]] if body.get("site") else None)
    for k, w, _ in col.viol:
        print(k, w)
    return col.nviol == 0
