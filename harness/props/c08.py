# -*- coding: utf-8 -*-
"""
C08 - identification is covariant under gain, channel order and time unit.

spec    : Transform.tla - Homomorphism, GainNonZero, UnitPositive, PermIsPermutation, InverseUndoes, RefsFollowChannels,
          AssocOnPerms; the prediction for a word of transformations is the composite [g, k, perm, refs] and the relation
          Fn' = k Fn, Xi' = Xi, Phi' = Normalise(M Phi)
binding : direction A.  Every word TLC explores is applied step by step to a seeded data set (so the composite predicted by
          the specification is checked against the step-by-step channel map), every algorithm of the alphabet is run through
          a setup on base and transformed data, and the predicted relation is checked on whole pole tables (matched per order
          column) and on extracted modes; every reported shape must have its largest-magnitude component equal to 1.
"""
from __future__ import annotations

import json
import math
import multiprocessing as mp
from fractions import Fraction

import numpy as np

from .. import core
from ..core import Raw

NCH = 3
FS = 64.0
LOOSE = dict(conj=True, xi_max=1.0, mpc_lim=0.0, mpd_lim=10.0, cov_max=1e9)
MIX = {1: (0, 1, 0.7), 2: (1, 2, -1.9)}      # plane rotations (i, j, angle)


def mix_matrix(q, n=NCH):
    i, j, a = MIX[q]
    Q = np.eye(n)
    Q[i, i] = Q[j, j] = math.cos(a)
    Q[i, j] = -math.sin(a)
    Q[j, i] = math.sin(a)
    return Q


def base_data(seed, n=3072, nch=NCH, kind="response"):
    from scipy import signal

    rng = np.random.default_rng(seed)
    if kind == "response":
        e = rng.standard_normal((n + 200, 2))
        y = np.zeros((n + 200, 2))
        for k, (f, xi) in enumerate(((0.06, 0.02), (0.17, 0.015))):
            w = 2 * np.pi * f
            r = np.exp(-xi * w)
            y[:, k] = signal.lfilter([1.0], [1.0, -2 * r * np.cos(w * np.sqrt(1 - xi**2)), r * r], e[:, k])
        return y[200:] @ rng.standard_normal((2, nch)) + 0.05 * rng.standard_normal((n, nch))
    t = np.arange(n) / FS
    out = np.zeros((n, nch))
    for f, xi in ((4.0, 0.01), (11.0, 0.02)):
        w = 2 * np.pi * f
        out += np.real(np.outer(np.exp((-xi * w + 1j * w * np.sqrt(1 - xi * xi)) * t), rng.standard_normal(nch) + 0j))
    return out + 1e-6 * rng.standard_normal((n, nch))


ALGS = {
    "FDD": dict(cls="FDD", kw=dict(nxseg=256, method_SD="per", pov=0.5), fam="fdd"),
    "FDDcor": dict(cls="FDD", kw=dict(nxseg=128, method_SD="cor"), fam="fdd"),
    "EFDD": dict(cls="EFDD", kw=dict(nxseg=256, method_SD="per", pov=0.5), fam="efdd"),
    "FSDD": dict(cls="FSDD", kw=dict(nxseg=256, method_SD="per", pov=0.25), fam="efdd"),
    "SSIcov_mm": dict(cls="SSIcov", kw=dict(br=6, ordmax=8, method="cov_mm", hc=LOOSE), fam="ssi"),
    "SSIcov_R": dict(cls="SSIcov", kw=dict(br=5, ordmax=6, method="cov_R", hc=LOOSE), fam="ssi"),
    "SSIdat": dict(cls="SSIdat", kw=dict(br=5, ordmax=6, hc=LOOSE), fam="ssi"),
    "pLSCFper": dict(cls="pLSCF", kw=dict(ordmax=5, nxseg=256, method_SD="per", hc=dict(conj=False, xi_max=1.0, mpc_lim=0.0, mpd_lim=10.0)), fam="plscf"),
    "pLSCFcor": dict(cls="pLSCF", kw=dict(ordmax=5, nxseg=128, method_SD="cor", hc=dict(conj=False, xi_max=1.0, mpc_lim=0.0, mpd_lim=10.0)), fam="plscf"),
}
TOL = {"fdd": 1e-9, "efdd": 1e-6, "ssi": 1e-7, "plscf": 1e-5}


def run_single(name, data, fs, refs):
    from pyoma2 import algorithms as A
    from pyoma2.setup import SingleSetup

    spec = ALGS[name]
    kw = dict(spec["kw"])
    if spec["fam"] == "ssi" and refs:
        kw["ref_ind"] = [r - 1 for r in refs]
    alg = getattr(A, spec["cls"])(name="a", **kw)
    ss = SingleSetup(data, fs=fs)
    ss.add_algorithms(alg)
    ss.run_by_name("a")
    return ss, alg


_BASE = {}


def base_run(name, X, fs, refs, key):
    """base result plus, for pole tables, the mask of poles that are well enough conditioned to be judged: a pole is
    judged when a 1e-12 relative perturbation of the data moves its frequency by less than 1e-3 x tolerance"""
    if key in _BASE:
        return _BASE[key]
    fam = ALGS[name]["fam"]
    _, ab = run_single(name, X.copy(), fs, refs)
    judged = None
    if fam in ("ssi", "plscf"):
        rng = np.random.default_rng(12345)
        _, ap = run_single(name, X * (1 + 1e-12 * rng.standard_normal(X.shape)), fs, refs)
        Fb, Xb = np.asarray(ab.result.Fn_poles), np.asarray(ab.result.Xi_poles)
        Fp, Xp = np.asarray(ap.result.Fn_poles), np.asarray(ap.result.Xi_poles)
        judged = np.zeros(Fb.shape, dtype=bool)
        tol = TOL[fam]
        for c in range(Fb.shape[1]):
            cand = [r for r in range(Fp.shape[0]) if np.isfinite(Fp[r, c])]
            for r in range(Fb.shape[0]):
                if not np.isfinite(Fb[r, c]) or not cand:
                    continue
                d = [abs(Fp[q, c] - Fb[r, c]) / Fb[r, c] + abs(Xp[q, c] - Xb[r, c]) for q in cand]
                judged[r, c] = min(d) < 1e-3 * tol
    _BASE[key] = (ab, judged)
    return _BASE[key]


def sorted_column(Fn, Xi, Phi, c, k=1.0):
    fin = np.isfinite(Fn[:, c])
    idx = np.where(fin)[0]
    key = sorted(idx, key=lambda r: (round(Fn[r, c] / k, 6), round(Xi[r, c], 8), round(float(np.angle(Phi[r, c, :] @ np.arange(1, Phi.shape[2] + 1))), 5)))
    return key


def norm_ok(phi):
    phi = np.asarray(phi)
    if phi.ndim == 1:
        phi = phi[:, None]
    ok = True
    for j in range(phi.shape[1]):
        v = phi[:, j]
        if np.isfinite(v).all():
            ok &= abs(np.abs(v).max() - 1) < 1e-9 and abs(v[np.argmax(np.abs(v))] - 1) < 1e-9
    return ok


def compare(name, fam, base, trans, k, M, is_perm, col, rep, word, judged=None):
    """relations between the result of the base run and of the transformed run"""
    tol = TOL[fam] * (10 if not is_perm else 1)
    rb, rt = base.result, trans.result
    tag = name

    def viol(kind, msg):
        col.violation(f"{tag}/{kind}/{word_key(word)}", f"{tag} under {word}: {msg}", rep)
        return False

    if fam in ("ssi", "plscf"):
        Fb, Xb, Pb = np.asarray(rb.Fn_poles), np.asarray(rb.Xi_poles), np.asarray(rb.Phi_poles)
        Ft, Xt, Pt = np.asarray(rt.Fn_poles), np.asarray(rt.Xi_poles), np.asarray(rt.Phi_poles)
        if Fb.shape != Ft.shape:
            return viol("table_shape", f"pole tables {Ft.shape} vs {Fb.shape}")
        if judged is None:
            judged = np.isfinite(Fb)
        for c in range(Fb.shape[1]):
            rows_b = [r for r in range(Fb.shape[0]) if np.isfinite(Fb[r, c])]
            cand = [r for r in range(Ft.shape[0]) if np.isfinite(Ft[r, c])]
            n_dc = sum(1 for r in rows_b if not judged[r, c])
            if abs(len(cand) - len(rows_b)) > n_dc:
                return viol("nan_pattern", f"order column {c}: {len(cand)} retained poles, base run {len(rows_b)} ({n_dc} ill-conditioned)")
            col.bump("poles_not_judged_ill_conditioned", n_dc)
            for r in rows_b:
                if not judged[r, c]:
                    continue
                pb = M @ Pb[r, c, :]
                pb = pb / pb[np.argmax(np.abs(pb))]
                pbc = pb.conj() / pb.conj()[np.argmax(np.abs(pb))]
                hit = None
                why = "frequency"
                for q in cand:
                    if abs(Ft[q, c] - k * Fb[r, c]) > tol * k * Fb[r, c]:
                        continue
                    why = "damping"
                    if abs(Xt[q, c] - Xb[r, c]) > max(tol, 1e-9) * 10:
                        continue
                    why = "mode_shape"
                    pt = Pt[q, c, :]
                    if np.allclose(pt, pb, rtol=0, atol=max(tol, 1e-9) * 100) or np.allclose(pt, pbc, rtol=0, atol=max(tol, 1e-9) * 100):
                        hit = q
                        break
                if hit is None:
                    return viol(why, f"order column {c}: no pole of the transformed run matches base pole f = {Fb[r, c]:.8g} x {k}, "
                                     f"xi = {Xb[r, c]:.6g} (transformed column: {np.round(Ft[cand, c], 8)[:6]})")
                if not norm_ok(Pt[hit, c, :]):
                    return viol("normalisation", f"order column {c}: largest component of a reported shape is not 1")
                cand.remove(hit)
        lb, lt = np.asarray(rb.Lab).sum(axis=0), np.asarray(rt.Lab).sum(axis=0)
        ndc = np.array([sum(1 for r in range(Fb.shape[0]) if np.isfinite(Fb[r, c]) and not judged[r, c]) for c in range(Fb.shape[1])])
        ndc = ndc + np.concatenate([[0], ndc[:-1]])       # a label also depends on the previous order
        if (np.abs(lb - lt) > ndc).any():
            return viol("labels", f"number of stable poles per order differs: {lt} vs base {lb}")
    # extracted modes
    if fam == "fdd" or fam == "efdd":
        s1 = np.asarray(rb.S_val)[0, 0, :]
        kk = int(np.argmax(s1[3:-3])) + 3
        f0 = float(np.asarray(rb.freq)[kk])
        df = float(rb.freq[1] - rb.freq[0])
        if not np.allclose(np.asarray(rt.freq), k * np.asarray(rb.freq), rtol=1e-12):
            return viol("grid", "frequency grid does not scale with the declared sampling rate")
        if fam == "fdd":
            base.mpe(sel_freq=[f0], DF=2 * df)
            trans.mpe(sel_freq=[k * f0], DF=2 * df * k)
        else:
            base.mpe(sel_freq=[f0], DF1=2 * df, DF2=14 * df, sppk=1, npmax=6)
            trans.mpe(sel_freq=[k * f0], DF1=2 * df * k, DF2=14 * df * k, sppk=1, npmax=6)
    else:
        # extract a well-conditioned pole of the highest order that has one
        pick = None
        for cc in range(Fb.shape[1] - 1, -1, -1):
            rows = [r for r in range(Fb.shape[0]) if np.isfinite(Fb[r, cc]) and judged[r, cc]]
            if rows:
                pick = (cc, float(min(Fb[r, cc] for r in rows)))
                break
        if pick is None:
            col.bump("extraction_not_judged_no_well_conditioned_pole")
            return True
        cc, f0 = pick
        base.mpe(sel_freq=[f0], order=cc, rtol=1e-4)
        trans.mpe(sel_freq=[k * f0], order=cc, rtol=1e-4)
    rb, rt = base.result, trans.result
    if len(np.atleast_1d(rb.Fn)) != len(np.atleast_1d(rt.Fn)):
        return viol("extracted_count", f"extracted {rt.Fn} vs base {rb.Fn}")
    if not np.allclose(np.atleast_1d(rt.Fn), k * np.atleast_1d(rb.Fn), rtol=max(tol, 1e-9)):
        return viol("extracted_frequency", f"extracted Fn {rt.Fn}, expected {k} x {rb.Fn}")
    if getattr(rb, "Xi", None) is not None and not np.allclose(np.atleast_1d(rt.Xi), np.atleast_1d(rb.Xi), rtol=0, atol=max(tol, 1e-9) * 10):
        return viol("extracted_damping", f"extracted Xi {rt.Xi} vs base {rb.Xi}")
    pb = M @ np.asarray(rb.Phi)[:, 0]
    pb = pb / pb[np.argmax(np.abs(pb))]
    pt = np.asarray(rt.Phi)[:, 0]
    if not (np.allclose(pt, pb, rtol=0, atol=max(tol, 1e-9) * 100) or
            np.allclose(pt, pb.conj() / pb.conj()[np.argmax(np.abs(pb))], rtol=0, atol=max(tol, 1e-9) * 100)):
        return viol("extracted_shape", f"extracted shape {np.round(pt, 6)} expected {np.round(pb, 6)}")
    if not norm_ok(rt.Phi) or not norm_ok(rb.Phi):
        return viol("normalisation", "largest component of an extracted shape is not 1")
    return True


def sc(me):
    """<<mantissa, exponent>> -> float"""
    return float(me[0]) * 10.0 ** int(me[1])


def word_key(word):
    return "+".join(sorted({w[0] for w in word})) or "identity"


def check_case(col, t, seed, algs, kind):
    word, comp = t["word"], t["comp"]
    refs = comp.get("base_refs", [])
    X = base_data(seed, kind=kind)
    fs = FS
    Y = X.copy()
    M = np.eye(NCH)
    is_perm = True
    for w in word:
        if w[0] == "gain":
            Y = Y * sc(w[1])
        elif w[0] == "perm":
            p = [j - 1 for j in w[1]]
            Y = Y[:, p]
            M = M[p, :]
        elif w[0] == "mix":
            Q = mix_matrix(w[1])
            Y = Y @ Q.T
            M = Q @ M
            is_perm = False
        elif w[0] == "unit":
            fs = fs * sc(w[1])
    k = sc(comp["k"])
    g = sc(comp["g"])
    rep = {"transition": t, "seed": seed, "kind": kind}
    # the specification's composite against the step-by-step application (binding of the algebra)
    if abs(fs - FS * k) > 1e-9 * FS * k:
        raise core.MachineryFailure("harness and specification disagree on the composite time unit")
    if is_perm:
        P = np.zeros((NCH, NCH))
        for j, c in enumerate(comp["perm"]):
            P[j, c - 1] = 1
        if not np.array_equal(P, M) or not np.allclose(Y, g * X[:, [c - 1 for c in comp["perm"]]], rtol=1e-9, atol=0):
            raise core.MachineryFailure("harness and specification disagree on the composite channel map")
    base_refs = t["base_refs"]
    new_refs = comp["refs"] if is_perm else []
    for name in algs:
        fam = ALGS[name]["fam"]
        if not is_perm and fam == "ssi" and base_refs:
            continue
        if kind == "decay" and fam == "plscf":
            continue      # noise-free decays give pLSCF spurious poles of damping ~0 +- 1e-10: their hard-criteria verdict is rounding
        col.count()
        try:
            ab, judged = base_run(name, X, FS, base_refs, (name, seed, kind, tuple(base_refs)))
            _, at = run_single(name, Y.copy(), fs, new_refs)
            compare(name, fam, ab, at, k, M, is_perm, col, dict(rep, alg=name), word, judged)
        except core.MachineryFailure:
            raise
        except Exception as e:
            col.violation(f"{name}/raised:{type(e).__name__}/{word_key(word)}", f"{name} under {word}: {e!r}", dict(rep, alg=name))
    if len(word) >= 1:
        col.mark_nontrivial((json.dumps(word), kind))
        col.sample({"word": word, "composite": comp, "algorithms": algs}, cap=1)


def _chunk(args):
    seed, algs, kind, base_refs, lines = args
    col = core.Collector()
    for ln in lines:
        t = json.loads(ln)
        t["base_refs"] = base_refs
        core.guarded(col, lambda: check_case(col, t, seed, algs, kind), f"{kind}", f"case {t}"[:600], {"transition": t, "seed": seed, "kind": kind})
        col.traces += 1
    return col


def rat(x):
    f = Fraction(x).limit_denominator(10**6)
    return "<<%d, %d>>" % (f.numerator, f.denominator)


def check_preger(ctx):
    """multi-setup variants: gain, channel permutation inside every setup (reference indices mapped), time unit"""
    from pyoma2 import algorithms as A
    from pyoma2.setup import MultiSetup_PreGER

    col = core.Collector()
    X1, X2 = base_data(ctx.seed + 5, n=2500), base_data(ctx.seed + 6, n=2300)
    X2[:, :2] = X1[:2300, :2]  # shared reference channels record the same response
    refs = [[0, 1], [0, 1]]
    algs = {
        "FDD_MS": (A.FDD_MS, dict(nxseg=256, method_SD="per", pov=0.5), "fdd"),
        "SSIcov_MS": (A.SSIcov_MS, dict(br=5, ordmax=6, method="cov_mm", hc=LOOSE), "ssi"),
        "SSIdat_MS": (A.SSIdat_MS, dict(br=5, ordmax=6, hc=LOOSE), "ssi"),
        "pLSCF_MS": (A.pLSCF_MS, dict(ordmax=4, nxseg=256, method_SD="per", hc=dict(conj=False, xi_max=1.0, mpc_lim=0.0, mpd_lim=10.0)), "plscf"),
        "EFDD_MS": (A.EFDD_MS, dict(nxseg=256, method_SD="per", pov=0.5), "efdd"),
    }
    words = [("gain", -250.0, [0, 1, 2], 1.0), ("gain", 1e-6, [0, 1, 2], 1.0), ("perm", 1.0, [2, 0, 1], 1.0), ("perm", 1.0, [1, 2, 0], 1.0),
             ("unit", 1.0, [0, 1, 2], 100.0), ("unit", 1.0, [0, 1, 2], 0.01), ("all", 3.0, [2, 1, 0], 3.0)]
    for wname, g, p, k in words:
        inv = [p.index(c) for c in range(3)]
        d1, d2 = g * X1[:, p], g * X2[:, p]
        r2 = [[inv[r] for r in rr] for rr in refs]
        # global order: references (listed order) then roving channels ascending in each setup
        def order(perm, rr):
            out = [("ref", j) for j in range(2)]
            for s in range(2):
                out += [(s, perm[c]) for c in range(3) if c not in rr[s]]
            return out
        ob, ot = order([0, 1, 2], refs), order(p, r2)
        M = np.zeros((len(ot), len(ob)))
        for i, o in enumerate(ot):
            M[i, ob.index(o)] = 1
        for name, (cls, kw, fam) in algs.items():
            col.count()
            rep = {"preger": True, "word": wname, "alg": name}
            try:
                res = []
                for dd, rr, fs in (([X1.copy(), X2.copy()], refs, FS), ([d1.copy(), d2.copy()], r2, FS * k)):
                    ms = MultiSetup_PreGER(fs=fs, ref_ind=[list(x) for x in rr], datasets=dd)
                    alg = cls(name="a", **kw)
                    ms.add_algorithms(alg)
                    ms.run_all()
                    res.append(alg)
                compare(name, fam, res[0], res[1], k, M, True, col, rep, [(wname,)])
            except Exception as e:
                col.violation(f"{name}/raised:{type(e).__name__}/{wname}", f"{name} (PreGER) under {wname}: {e!r}", rep)
            col.mark_nontrivial(("preger", wname, name))
    col.traces = len(words)
    ctx.merge(col)


def run(ctx):
    ctx.rule = ("every word of <= MaxWord transformations of Transform.tla applied step by step to seeded data; FDD (per, cor), EFDD, "
                "FSDD, SSIcov (cov_mm, cov_R), SSIdat, pLSCF (per, cor) run through SingleSetup on base and transformed data; PreGER "
                "variants on a fixed list of words. Non-trivial: non-empty words; distinct by (word, data kind)")
    ctx.trusted = ["TLC (exact composition of gains, units and permutations)", "numpy comparison with per-family tolerances "
                   "(FDD 1e-9, EFDD 1e-6, SSI 1e-7, pLSCF 1e-5; x10 under orthogonal mixing)"]
    ctx.assumptions = ["poles are matched per order column after sorting by (frequency, damping); conjugate twins are interchangeable",
                       "hard criteria are set loose so that no pole sits near a rejection threshold",
                       "the continuum of gains / units is explored at catalogue points (both extremes, either sign)"]
    quick = ctx.tier == "quick"
    gains = [(-3, 0), (1, -6), (1, 6)]
    units = [(1, -2), (3, 0), (1, 2)]
    perms = [(2, 3, 1), (3, 2, 1)] if quick else [(2, 3, 1), (3, 2, 1), (1, 3, 2), (2, 1, 3), (3, 1, 2)]
    for cname, base_refs, algs, mixes in (("allref", [], list(ALGS), {1, 2}), ("subset", [3, 1], ["SSIcov_mm", "SSIcov_R", "SSIdat"], set())):
        consts = {"NChan": NCH, "Gains": Raw("{" + ", ".join("<<%d, %d>>" % g for g in gains) + "}"),
                  "PermSet": Raw("{" + ", ".join("<<%d, %d, %d>>" % p for p in perms) + "}"),
                  "MixIds": mixes if mixes else Raw("{}"),
                  "Units": Raw("{" + ", ".join("<<%d, %d>>" % u for u in units) + "}"),
                  "Refs": base_refs, "MaxWord": 2 if quick else 3}
        mod, cfg = ctx.model("Transform", cname, consts,
                             invariants=["Homomorphism", "GainNonZero", "UnitPositive", "PermIsPermutation", "InverseUndoes",
                                         "RefsFollowChannels", "AssocOnPerms"],
                             action_constraints=["Emit"], view="View")
        r = ctx.tlc(mod, cfg, raw=True)
        lines = sorted(set(r.transitions))
        cap = 150 if quick else 1500
        if len(lines) > cap:
            rng = np.random.default_rng(ctx.seed)
            ctx.extra[f"{cname}_words_enumerated"] = len(lines)
            lines = [lines[i] for i in sorted(rng.choice(len(lines), size=cap, replace=False))]
        ctx.extra[f"{cname}_words_replayed"] = len(lines)
        kinds = ["response"] if quick else ["response", "decay"]
        for kind in kinds:
            chunks = [(ctx.seed, algs, kind, base_refs, ch) for ch in core.chunks(lines, max(1, len(lines) // 48))]
            with mp.get_context("fork").Pool(16) as pool:
                for col in pool.map(_chunk, chunks):
                    ctx.merge(col)
    check_preger(ctx)
    ctx.exhaustive = False


def replay(ctx, body):
    col = core.Collector()
    if body.get("preger"):
        check_preger(ctx)
        return ctx.violations == 0
    t = body["transition"]
    check_case(col, t, body["seed"], [body["alg"]] if body.get("alg") else list(ALGS), body.get("kind", "response"))
    for k, w, _ in col.viol:
        print(k, w)
    return col.nviol == 0
