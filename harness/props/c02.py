# -*- coding: utf-8 -*-
"""
C02 - PoSER merging reproduces the global mode shape from re-scaled setups.

spec    : PoserMerge.tla (+ Layout.tla): EverySensorOnce, RefsFirst, RovingInSetupOrder, LayoutsWellFormed
binding : direction A.  Every multi-setup layout TLC enumerates (every arrangement of reference and roving
          sensors in every setup's channel list) is turned into per-setup mode-shape matrices a[i][k] * G
          restricted to the setup's sensors (exact Gaussian-integer catalogue, exact rational factors) and
          merged by gen.merge_mode_shapes and by MultiSetup_PoSER.merge_results (real SingleSetups with stub
          algorithms); the merged matrix must be a[1][k] * G in the specification's global order, the flattened
          sensor names must follow the same order, and Fn / Xi means and dispersions must equal the exact
          rational statistics.  End-to-end: per-setup SSI runs on free decays of one global system.
"""
from __future__ import annotations

import json
import multiprocessing as mp
from fractions import Fraction

import numpy as np

from .. import core, tables
from ..core import Raw
from .poser_ctor import _stubs


def configs(tier):
    if tier == "quick":
        return [
            dict(name="r1", nref=1, cnts=[[1, 2], [0, 2], [2, 1, 1]], pats=[0, 3], nm=[2]),
            dict(name="r2", nref=2, cnts=[[1, 1], [0, 2]], pats=[1, 4], nm=[1, 2]),
        ]
    return [
        dict(name="r1", nref=1, cnts=[[1, 2], [0, 2], [2, 1, 1], [2, 2, 2], [1, 1, 1, 1]], pats=[0, 3, 5], nm=[1, 3]),
        dict(name="r2", nref=2, cnts=[[1, 1], [0, 2], [2, 1], [1, 1, 1]], pats=[1, 4, 6], nm=[1, 2]),
        dict(name="r3", nref=3, cnts=[[1, 1], [0, 1]], pats=[2, 7], nm=[2]),
    ]


FREQS = [[10000, 10000], [10000, 10200, 9900], [5000, 5100], [7000, 7000, 7000, 7700]]


def build_case(t, complex_=True):
    lays, pat, nm = t["lays"], t["pat"], t["nm"]
    phis, reflist, names = [], [], []
    for i, lay in enumerate(lays):
        chan = lay["chan"]
        phi = np.zeros((len(chan), nm), dtype=complex)
        for c, s in enumerate(chan):
            for k in range(nm):
                a = tables.scale(pat, i, k)
                phi[c, k] = complex(a.numerator / a.denominator) * tables.global_shape(s, k, complex_)
        phis.append(phi)
        reflist.append([r - 1 for r in lay["ref"]])
        names.append([f"s{s}" for s in chan])
    return phis, reflist, names


def expected(t, complex_=True):
    order, nm, pat = t["out"]["order"], t["nm"], t["pat"]
    exp = np.zeros((len(order), nm), dtype=complex)
    for row, s in enumerate(order):
        for k in range(nm):
            a = tables.scale(pat, 0, k)
            exp[row, k] = (a.numerator / a.denominator) * tables.global_shape(s, k, complex_)
    return exp


def check_case(col, cfgname, t, only=None):
    from pyoma2.functions import gen
    from pyoma2.setup import MultiSetup_PoSER, SingleSetup

    nref = len(t["lays"][0]["ref"])
    rep = {"config": cfgname, "transition": t}
    for complex_ in (True, False):
        phis, reflist, names = build_case(t, complex_)
        exp = expected(t, complex_)
        tag = "complex" if complex_ else "real"
        # --- gen.merge_mode_shapes
        col.count()
        try:
            got = gen.merge_mode_shapes(MSarr_list=[p.copy() for p in phis], reflist=[list(r) for r in reflist])
        except Exception as e:
            col.violation(f"gen.merge_mode_shapes/raised:{type(e).__name__}", f"merge_mode_shapes raised {e!r}", rep)
            continue
        kind = classify(got, exp, nref)
        if kind:
            col.violation(f"gen.merge_mode_shapes/{kind}", f"merge_mode_shapes ({tag} shapes): {kind}; layouts {t['lays']} "
                          f"pattern {t['pat']}: got column 0 {np.round(got[:, 0], 6).tolist() if got.ndim == 2 else got}, "
                          f"expected {exp[:, 0].tolist()}", rep)
    # --- names
    col.count()
    flat = gen.flatten_sns_names([list(n) for n in names], ref_ind=[list(r) for r in reflist])
    exp_names = [f"REF{j + 1}" for j in range(nref)] + [f"s{s}" for s in t["out"]["order"][nref:]]
    if list(flat) != exp_names:
        col.violation("gen.flatten_sns_names/order", f"flattened names {flat} expected {exp_names}; layouts {t['lays']}", rep)
    # --- MultiSetup_PoSER.merge_results with statistics
    col.count()
    st = _stubs()
    fr = t["fr"]
    nm = t["nm"]
    if len(fr) == len(t["lays"]):
        phis, reflist, names = build_case(t, True)
        setups, later = [], []
        for i, phi in enumerate(phis):
            ss = SingleSetup(np.zeros((4, phi.shape[0])), fs=10.0)
            alg = st[1](name="alg", p=1)
            ss.add_algorithms(alg)
            ss.run_by_name("alg")
            ss.mpe("alg")
            from pyoma2.algorithms.data.result import SSIResult

            # history: an earlier extraction (other frequencies, other scales) is merged first; the judged merge follows a
            # re-extraction on every setup - merge_results reads the setups' current results each time it is called
            alg.result = SSIResult(Fn=np.array([2.5 * fr[i] / 1000.0 * (k + 1) for k in range(nm)]),
                                   Xi=np.array([3.0 * fr[i] / 1e6 * (k + 1) for k in range(nm)]), Phi=phi * (3.0 if i == 0 else -2.0))
            setups.append(ss)
            later.append((alg, SSIResult(Fn=np.array([fr[i] / 1000.0 * (k + 1) for k in range(nm)]),
                                         Xi=np.array([fr[i] / 1e6 * (k + 1) for k in range(nm)]), Phi=phi.copy())))
        ms = MultiSetup_PoSER(ref_ind=[list(r) for r in reflist], single_setups=setups, names=["grp"])
        ms.merge_results()
        for alg, res_new in later:
            alg.result = res_new
        merged = ms.merge_results()
        if not isinstance(merged, dict) or "grp" not in merged:
            col.violation("MultiSetup_PoSER.merge_results/no_result_for_group", f"merge_results returned {type(merged).__name__} "
                          f"{list(merged) if isinstance(merged, dict) else merged} for the algorithm group 'grp'", rep)
            return
        res = merged["grp"]
        exp = expected(t, True)
        kind = classify(np.asarray(res.Phi), exp, nref)
        if kind:
            col.violation(f"MultiSetup_PoSER.merge_results/{kind}", f"merge_results: {kind}; layouts {t['lays']}", rep)
        mean = Fraction(*t["out"]["mean"])
        d2 = Fraction(*t["out"]["disp2"])
        for k in range(nm):
            if abs(res.Fn[k] - float(mean) / 1000.0 * (k + 1)) > 1e-12 * abs(res.Fn[k]):
                col.violation("MultiSetup_PoSER.merge_results/mean", f"Fn mean {res.Fn[k]} expected {float(mean) / 1000 * (k + 1)}", rep)
            for nmz, v in (("Fn_cov", res.Fn_cov[k]), ("Xi_cov", res.Xi_cov[k])):
                if abs(v * v - float(d2)) > 1e-9 * max(float(d2), 1e-12) + 1e-18:
                    col.violation(f"MultiSetup_PoSER.merge_results/dispersion:{nmz}",
                                  f"{nmz}^2 = {v * v}, exact (population std / mean)^2 = {float(d2)} for {fr}", rep)
    nrov = [len(l["chan"]) - nref for l in t["lays"]]
    if sum(1 for n in nrov if n > 0) >= 2 and any(l["ref"] != list(range(1, nref + 1)) for l in t["lays"]):
        col.mark_nontrivial((cfgname, t["lays"], t["pat"], t["nm"]))
        col.sample({"config": cfgname, "layouts": t["lays"], "scale_pattern": t["pat"], "global_order": t["out"]["order"]}, cap=1)


def classify(got, exp, nref):
    got = np.asarray(got)
    if got.shape != exp.shape:
        return f"shape{got.shape}"
    if np.allclose(got, exp, rtol=1e-12, atol=1e-12):
        return None
    if np.allclose(got[:nref], exp[:nref], rtol=1e-12, atol=1e-12):
        # right reference block: is it the order or the scale of the roving rows?
        ratio = got[nref:] / exp[nref:]
        if np.allclose(ratio.imag, 0, atol=1e-9) and np.allclose(ratio, ratio[0:1, :], rtol=1e-9):
            return "roving_scale"
        if sorted(np.round(np.abs(got[nref:, 0]), 9)) == sorted(np.round(np.abs(exp[nref:, 0]), 9)):
            return "roving_order"
        return "roving_rows"
    return "reference_rows"


def _chunk(args):
    cfgname, lines = args
    col = core.Collector()
    for ln in lines:
        t = json.loads(ln)
        core.guarded(col, lambda: check_case(col, cfgname, t), "merge", f"case {t}"[:600], {"config": cfgname, "transition": t})
        col.traces += 1
    return col


def run(ctx):
    ctx.rule = ("every multi-setup layout of PoserMerge.tla (all arrangements of reference / roving sensors in every setup's "
                "channel list, scale patterns with factors of either sign and magnitude 0.05..20, real and complex global "
                "shapes) merged by merge_mode_shapes, flatten_sns_names and MultiSetup_PoSER.merge_results; non-trivial: "
                ">= 2 setups with roving sensors and at least one setup whose references are not the leading channels in "
                "listed order; distinct by (config, layouts, pattern, modes)")
    ctx.trusted = ["TLC", "exact Fractions / Gaussian integers of harness/tables.py", "numpy.allclose 1e-12"]
    ctx.assumptions = ["the j-th listed reference index of every setup is the same physical reference sensor"]
    for c in configs(ctx.tier):
        consts = {
            "NRef": c["nref"],
            "RovCounts": Raw("{" + ", ".join("<<" + ", ".join(map(str, x)) + ">>" for x in c["cnts"]) + "}"),
            "ScalePats": set(c["pats"]), "NModes": set(c["nm"]),
            "FreqSets": Raw("{" + ", ".join("<<" + ", ".join(map(str, x)) + ">>" for x in FREQS) + "}"),
        }
        mod, cfg = ctx.model("PoserMerge", c["name"], consts,
                             invariants=["EverySensorOnce", "RefsFirst", "RovingInSetupOrder", "LayoutsWellFormed",
                                         "DispersionNonNegative"],
                             action_constraints=["Emit"], view="View")
        r = ctx.tlc(mod, cfg, raw=True)
        if len(r.transitions) != r.generated - r.initial:
            raise core.MachineryFailure("emitted transition count differs from TLC's")
        chunks = [(c["name"], ch) for ch in core.chunks(r.transitions, max(1, len(r.transitions) // 64))]
        with mp.get_context("fork").Pool(16) as pool:
            for col in pool.map(_chunk, chunks):
                ctx.merge(col)
    # end-to-end clause: setups whose shapes come from SSI runs on noise-free data of one global system
    from . import ident

    ident.run_c02_e2e(ctx)
    ctx.exhaustive = True


def replay(ctx, body):
    col = core.Collector()
    if body.get("pipeline"):
        from . import ident

        return ident.replay(ctx, body)
    check_case(col, body["config"], body["transition"])
    for k, w, _ in col.viol:
        print(k, w)
    return col.nviol == 0
