# -*- coding: utf-8 -*-
"""
C12 - the SSI Hankel / Toeplitz matrix has the prescribed lag, channel and block layout.

spec    : Hankel.tla - SingleLag, InRange, ToeplitzInRange, ToeplitzIsReflectedHankel, Shape
binding : direction A against ssi.build_hank (and SSIResult.H through SSIcov/SSIdat runs).  For every shape
          TLC enumerates the bilinear map of the real code is probed on the impulse basis of one argument
          with a generic integer matrix in the other (and vice versa): a non-zero entry must sit in the block
          / channel / reference the specification predicts, at the predicted single lag, with one weight per
          entry (one weight overall for the moment-matrix method; a function of the lag only for the Toeplitz
          method); bilinearity itself on seeded random pairs; data-driven method: same layout and the Gram
          identity with the projection built from the specification's index sets.
"""
from __future__ import annotations

import itertools
import json
import multiprocessing as mp

import numpy as np

from .. import core
from ..core import Raw


def ordered_subsets(n, kmax=None):
    out = []
    for k in range(1, (kmax or n) + 1):
        out += [list(p) for p in itertools.permutations(range(n), k)]
    return out


def cfg_tla(l, ref, br, ndat, method, nb=0):
    return '[l |-> %d, ref |-> <<%s>>, br |-> %d, ndat |-> %d, method |-> "%s", nb |-> %d]' % (
        l, ", ".join(map(str, ref)), br, ndat, method, nb)


def configs(tier):
    out = []
    if tier == "quick":
        for l in (1, 2, 3):
            for ref in ordered_subsets(l):
                for br in (1, 2, 3):
                    for ndat in (2 * br + 7, 2 * br + 12):
                        for m in ("cov_mm", "cov_R"):
                            out.append(cfg_tla(l, ref, br, ndat, m))
                    need = 2 * br + 2 + (br + 1) * (l + len(ref))     # samples the QR of the data-driven method needs
                    for ndat in (need + 3, need + 10):
                        out.append(cfg_tla(l, ref, br, ndat, "dat"))
    else:
        for l in (1, 2, 3, 4):
            for ref in ordered_subsets(l, 3):
                for br in (1, 2, 3, 4, 5):
                    for ndat in (2 * br + 7, 2 * br + 12, 40):
                        for m in ("cov_mm", "cov_R"):
                            out.append(cfg_tla(l, ref, br, ndat, m))
                    need = 2 * br + 2 + (br + 1) * (l + len(ref))
                    for ndat in (need + 3, need + 10, need + 40):
                        out.append(cfg_tla(l, ref, br, ndat, "dat"))
    return out


def hank(Y, Yref, br, method):
    from pyoma2.functions import ssi

    H, _ = ssi.build_hank(Y=Y, Yref=Yref, br=br, method=method, calc_unc=False)
    return np.asarray(H)


def check_cov(col, t, rng):
    c, out = t["cfg"], t["out"]
    l, ref, br, nd, method = c["l"], c["ref"], c["br"], c["ndat"], c["method"]
    r = len(ref)
    rep = {"transition": t}
    site = f"build_hank[{method}]"
    Z = rng.integers(1, 9, size=(l, nd)).astype(float)          # generic data, all channels
    Zref = Z[ref, :]
    H0 = hank(Z, Zref, br, method)
    if H0.shape != (out["rows"], out["cols"]):
        col.violation(f"{site}/shape", f"{site}: shape {H0.shape}, expected {(out['rows'], out['cols'])} for {c}", rep)
        return
    weights = {}
    # probe 1: impulse in the data argument, generic reference data (determines the map in (a, s) x all (b, u))
    for a in range(l):
        for s in range(nd):
            E = np.zeros((l, nd))
            E[a, s] = 1.0
            G = rng.integers(1, 9, size=(r, nd)).astype(float)
            H = hank(E, G, br, method)
            col.count()
            for i in range(br + 1):
                for j in range(br + 1):
                    lag = out["lag"][i][j]
                    blk = H[i * l:(i + 1) * l, j * r:(j + 1) * r]
                    other = np.delete(blk, a, axis=0)
                    if other.size and np.abs(other).max() > 0:
                        col.violation(f"{site}/channel_rows", f"{site}: impulse in channel {a} fills rows of other channels in block ({i},{j}); {c}", rep)
                        return
                    u = s - lag if method == "cov_mm" else s + lag
                    row = blk[a, :]
                    if 0 <= u < nd:
                        w = row / G[:, u]
                        nz = np.abs(row) > 0
                        if nz.any():
                            if not nz.all() or np.ptp(w) > 1e-13 * abs(w[0]):
                                col.violation(f"{site}/lag_or_reference", f"{site}: block ({i},{j}) does not pair channel {a} sample {s} with reference samples at the single lag {lag}; {c}", rep)
                                return
                            key = lag if method == "cov_R" else 0
                            weights.setdefault((i, j), set()).add(round(float(w[0]), 15))
                            weights.setdefault(("lag", key), set()).add(round(float(w[0]), 15))
                        else:
                            # a zero row is admissible only at the edges of the record
                            t_idx = s - out["futstart"][i] if method == "cov_mm" else s
                            inner = (1 <= t_idx <= out["cnt"][i][j] - 2) if method == "cov_mm" else (s + lag <= nd - 1)
                            if inner:
                                col.violation(f"{site}/missing_product", f"{site}: block ({i},{j}) ignores the product of channel {a} sample {s} with reference sample {u} (lag {lag}); {c}", rep)
                                return
                    elif np.abs(row).max() > 0:
                        col.violation(f"{site}/lag_or_reference", f"{site}: block ({i},{j}) non-zero although sample {s} has no partner at lag {lag}; {c}", rep)
                        return
    # one weight per entry; one weight overall (cov_mm) / per lag (cov_R: Toeplitz structure)
    for k, ws in weights.items():
        if len(ws) > 1 and (max(ws) - min(ws)) > 1e-12 * max(ws):
            kind = "weights_not_uniform" if k[0] != "lag" else "weights_differ_between_blocks"
            col.violation(f"{site}/{kind}", f"{site}: weights {sorted(ws)} for {k}; {c}", rep)
            return
    # probe 2: reference rows are the listed reference channels - impulse in the reference argument
    for b in range(r):
        u = nd // 2
        E = np.zeros((r, nd))
        E[b, u] = 1.0
        H = hank(Z, E, br, method)
        col.count()
        for i in range(br + 1):
            for j in range(br + 1):
                lag = out["lag"][i][j]
                blk = H[i * l:(i + 1) * l, j * r:(j + 1) * r]
                if np.abs(np.delete(blk, b, axis=1)).max(initial=0) > 0:
                    col.violation(f"{site}/reference_columns", f"{site}: impulse in reference {b} fills columns of other references; {c}", rep)
                    return
                s = u + lag if method == "cov_mm" else u - lag
                colv = blk[:, b]
                if 0 <= s < nd and np.abs(colv).max() > 0:
                    w = colv / Z[:, s]
                    if np.ptp(w) > 1e-13 * abs(w[0]):
                        col.violation(f"{site}/lag_or_channel", f"{site}: block ({i},{j}) column {b} is not the data at the single lag {lag}; {c}", rep)
                        return
    # bilinearity on seeded random pairs
    A1, A2 = rng.standard_normal((l, nd)), rng.standard_normal((l, nd))
    B1, B2 = rng.standard_normal((r, nd)), rng.standard_normal((r, nd))
    lhs = hank(2 * A1 - 3 * A2, B1, br, method)
    rhs = 2 * hank(A1, B1, br, method) - 3 * hank(A2, B1, br, method)
    lhs2 = hank(A1, 0.5 * B1 + 4 * B2, br, method)
    rhs2 = 0.5 * hank(A1, B1, br, method) + 4 * hank(A1, B2, br, method)
    if not (np.allclose(lhs, rhs, rtol=1e-10, atol=1e-12) and np.allclose(lhs2, rhs2, rtol=1e-10, atol=1e-12)):
        col.violation(f"{site}/not_bilinear", f"{site}: not bilinear in (data, reference data); {c}", rep)
    if r < l or ref != sorted(ref):
        col.mark_nontrivial((l, tuple(ref), br, nd, method))
    col.sample({"shape": c, "predicted_lag_table": out["lag"], "rows": out["rows"], "cols": out["cols"]}, cap=1)


def check_dat(col, t, rng):
    c, out = t["cfg"], t["out"]
    l, ref, br, nd = c["l"], c["ref"], c["br"], c["ndat"]
    r = len(ref)
    rep = {"transition": t}
    site = "build_hank[dat]"
    Y = rng.standard_normal((l, nd))
    H = hank(Y, Y[ref, :], br, "dat")
    col.count()
    if H.shape != (out["rows"], out["cols"]):
        col.violation(f"{site}/shape", f"{site}: shape {H.shape}, expected {(out['rows'], out['cols'])} for {c}", rep)
        return
    cnt = out["cnt"][0][0]
    if cnt < (br + 1) * r + 1:
        col.bump("dat_skipped_too_short_for_projection")
        return
    Yf = np.vstack([Y[:, out["futstart"][i]: out["futstart"][i] + cnt] for i in range(br + 1)])
    Yp = np.vstack([Y[ref, :][:, out["paststart"][j]: out["paststart"][j] + cnt] for j in range(br + 1)])
    if np.linalg.cond(Yp @ Yp.T) > 1e8:
        col.bump("dat_skipped_ill_conditioned")
        return
    P = Yf @ Yp.T @ np.linalg.solve(Yp @ Yp.T, Yp @ Yf.T)
    G = H @ H.T
    sc = np.abs(P).max()
    # the library scales the rows by 1/sqrt(N): the Gram matrices agree up to that one positive factor
    ratio = (G * P).sum() / (P * P).sum()
    if not (ratio > 0 and np.allclose(G, ratio * P, rtol=1e-8, atol=1e-9 * sc * ratio)):
        col.violation(f"{site}/gram_identity", f"{site}: H H^T is not (a positive multiple of) the Gram matrix of the projection of the "
                      f"future outputs onto the past reference outputs; {c}", rep)
    if r < l:
        col.mark_nontrivial((l, tuple(ref), br, nd, "dat"))


def _chunk(args):
    seed, lines = args
    col = core.Collector()
    rng = np.random.default_rng(seed)
    for ln in lines:
        t = core.seqify(json.loads(ln))
        fn = (lambda: check_dat(col, t, rng)) if t["cfg"]["method"] == "dat" else (lambda: check_cov(col, t, rng))
        core.guarded(col, fn, f"build_hank[{t['cfg']['method']}]", f"shape {t['cfg']}", {"transition": t})
        col.traces += 1
    return col


def run_through_classes(ctx):
    """SSIResult.H of real runs equals build_hank on the same data (the class hands channels / references through)."""
    from pyoma2 import algorithms as A
    from pyoma2.functions import ssi
    from pyoma2.setup import SingleSetup

    col = core.Collector()
    rng = np.random.default_rng(ctx.seed)
    x = rng.standard_normal((400, 4))
    ss = SingleSetup(x, fs=50.0)
    algs = [A.SSIcov(name="mm", br=4, ordmax=6, method="cov_mm", ref_ind=[2, 0]),
            A.SSIcov(name="R", br=4, ordmax=4, method="cov_R", ref_ind=[3]),
            A.SSIdat(name="dat", br=4, ordmax=6, ref_ind=[1, 3, 0]),
            A.SSIcov(name="all", br=3, ordmax=6)]
    ss.add_algorithms(*algs)
    ss.run_all()
    for a in algs:
        col.count()
        ref = a.run_params.ref_ind
        Y = x.T
        Yr = Y[ref, :] if ref is not None else Y
        H, _ = ssi.build_hank(Y=Y, Yref=Yr, br=a.run_params.br, method=a.run_params.method or a.method)
        if a.result.H is None or not np.array_equal(np.asarray(a.result.H), H):
            col.violation(f"{type(a).__name__}.run/H", f"{type(a).__name__}({a.name}): result.H is not build_hank(data, data[ref_ind]) "
                          f"for ref_ind={ref}", {"class_H": a.name})
    col.traces = len(algs)
    ctx.merge(col)


def run(ctx):
    ctx.rule = ("every (channels, ordered reference subset, block rows, record length, method) shape of Hankel.tla: the real "
                "build_hank probed on the impulse basis of each argument against generic integer data in the other, random "
                "bilinearity checks, Gram identity for the data-driven method; non-trivial: shapes with fewer references "
                "than channels or an unsorted reference list; distinct by shape")
    ctx.trusted = ["TLC", "numpy linear algebra for the projection Gram matrix (data-driven method)"]
    ctx.assumptions = ["the number of averaged products is not fixed by the property: a zero entry is accepted only for the "
                       "first / last product of the model's range",
                       "the data-driven Gram identity is judged up to one positive factor (row scaling 1/sqrt(N))"]
    cfgs = configs(ctx.tier)
    mod, cfg = ctx.model("Hankel", "layout", {"Configs": Raw("{" + ", ".join(cfgs) + "}")},
                         invariants=["SingleLag", "InRange", "ToeplitzInRange", "ToeplitzIsReflectedHankel", "Shape",
                                     "VecBijective"],
                         action_constraints=["Emit"], view="View")
    r = ctx.tlc(mod, cfg, raw=True)
    if len(r.transitions) != r.generated - r.initial:
        raise core.MachineryFailure("emitted transition count differs from TLC's")
    lines = r.transitions
    chunks = [(ctx.seed + n, ch) for n, ch in enumerate(core.chunks(lines, max(1, len(lines) // 64)))]
    with mp.get_context("fork").Pool(16) as pool:
        for col in pool.map(_chunk, chunks):
            ctx.merge(col)
    run_through_classes(ctx)
    if ctx.tier == "thorough":
        # extra assurance on the specification, not relied upon: the lag / range lemmas of Hankel.tla for ALL sizes (TLAPS)
        ob, pr = core.run_tlaps("HankelLag", ctx.scratch)
        ctx.extra["tlaps_obligations"] = ob
        ctx.extra["tlaps_discharged"] = pr
        if pr != ob:
            raise core.MachineryFailure(f"TLAPS proved only {pr} of {ob} obligations of HankelLag.tla")
    ctx.exhaustive = True


def replay(ctx, body):
    col = core.Collector()
    rng = np.random.default_rng(ctx.seed)
    if "class_H" in body:
        run_through_classes(ctx)
        return ctx.violations == 0
    t = core.seqify(body["transition"])
    (check_dat if t["cfg"]["method"] == "dat" else check_cov)(col, t, rng)
    for k, w, _ in col.viol:
        print(k, w)
    return col.nviol == 0
