# -*- coding: utf-8 -*-
"""pytest plugin (loaded with -p harness.pytest_trace): records setup-object traces of the repository's own tests
when the environment variable PYOMA2_VERIF_TRACE names an output file.  Lives in /verif; /repo is not instrumented."""
import json
import os

_OUT = os.environ.get("PYOMA2_VERIF_TRACE")
_REC = None


def pytest_sessionstart(session):
    global _REC
    if _OUT:
        from harness.tracewrap import Recorder

        _REC = Recorder().install()


def pytest_sessionfinish(session, exitstatus):
    if _REC is not None:
        _REC.uninstall()
        with open(_OUT, "w") as f:
            json.dump(_REC.dump(), f)
