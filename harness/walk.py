# -*- coding: utf-8 -*-
"""
Conformance direction A: replay the transition relation emitted by TLC into the real code.

The graph is walked depth-first from the initial state.  One concrete world is kept per
node on the current path (copy-on-branch), the action of an edge is applied to the real
objects through their public API, and the harness' `check` callback compares the concrete
world with the abstract post-state(s) of the specification.  Where the specification is
nondeterministic the concrete world must match one of the successors for that action.
"""
from __future__ import annotations

import copy
import json
import typing


def key(state) -> str:
    return json.dumps(state, sort_keys=True, separators=(",", ":"))


class Graph:
    def __init__(self, transitions: typing.Iterable[dict]):
        self.succ: typing.Dict[str, typing.Dict[str, typing.List[dict]]] = {}
        self.state: typing.Dict[str, dict] = {}
        self.nedges = 0
        for t in transitions:
            pk = key(t["pre"])
            ak = key(t["act"])
            self.state.setdefault(pk, t["pre"])
            posts = self.succ.setdefault(pk, {}).setdefault(ak, [])
            if not any(key(p) == key(t["post"]) for p in posts):
                posts.append(t["post"])
                self.nedges += 1
            self.state.setdefault(key(t["post"]), t["post"])

    def actions(self, pk: str):
        for ak, posts in self.succ.get(pk, {}).items():
            yield json.loads(ak), posts


def walk(graph: Graph, init_state: dict, make_world, apply, check, *, merge: bool = True,
         on_edge=None, max_edges: typing.Optional[int] = None, clone=copy.deepcopy, visited=None):
    """
    make_world()                    -> concrete world for the initial state
    apply(world, act)               -> (world', raised: bool)   (may mutate world)
    check(world', act, pre, posts, raised, path) -> index of the matching post-state or None;
                                       (reports the violation itself)
    merge=True  : every abstract state is expanded once (graph walk)
    merge=False : every path is walked (tree walk; use with small depth)
    Returns (number of edges executed, number of complete behaviours = leaves reached).
    """
    executed = 0
    leaves = 0
    if visited is None:
        visited = set()
    init_k = key(init_state)
    stack = [(init_k, make_world(), [])]
    visited.add(init_k)
    while stack:
        sk, world, path = stack.pop()
        acts = list(graph.actions(sk))
        if not acts:
            leaves += 1
        for n, (act, posts) in enumerate(acts):
            if max_edges is not None and executed >= max_edges:
                return executed, leaves
            w = clone(world) if n < len(acts) - 1 else world
            w2, raised = apply(w, act)
            executed += 1
            npath = path + [act]
            idx = check(w2, act, graph.state[sk], posts, raised, npath)
            if on_edge is not None:
                on_edge(act, idx is not None)
            if idx is None:
                continue  # the concrete world left the specification: do not explore below
            pk = key(posts[idx])
            if merge:
                if pk in visited:
                    continue
                visited.add(pk)
            stack.append((pk, w2, npath))
    return executed, leaves


# --------------------------------------------------------------------------------------
# parallel walk: one task per first action
# --------------------------------------------------------------------------------------
_G = {}


def _task(idxs):
    g = _G
    graph, init_state = g["graph"], g["init"]
    col = g["new_collector"]()
    acts = list(graph.actions(key(init_state)))
    visited = set()
    executed, leaves = 0, 0
    for i in idxs:
        act, posts = acts[i]
        world = g["make_world"]()
        w2, raised = g["apply"](world, act)
        idx = g["check"](col, w2, act, init_state, posts, raised, [act])
        executed += 1
        if idx is None:
            continue
        sub_init = posts[idx]
        if g["merge"] and key(sub_init) in visited:
            continue

        def mk(w2=w2):
            return w2

        e, l = walk(graph, sub_init, mk, g["apply"],
                    lambda w, a, pre, po, r, path, act=act: g["check"](col, w, a, pre, po, r, [act] + path),
                    merge=g["merge"], max_edges=g["max_edges"], clone=g["clone"], visited=visited)
        executed += e
        leaves += l
    col.evaluations += executed
    col.traces += leaves
    return col


def walk_parallel(graph, init_state, make_world, apply, check, new_collector, *, merge=True,
                  max_edges=None, procs=16, clone=copy.deepcopy):
    """check(col, world, act, pre, posts, raised, path) -> idx | None.  Returns list of collectors."""
    import multiprocessing as mp

    _G.clear()
    _G.update(graph=graph, init=init_state, make_world=make_world, apply=apply, check=check,
              new_collector=new_collector, merge=merge, max_edges=max_edges, clone=clone)
    n = len(list(graph.actions(key(init_state))))
    if n == 0:
        return []
    if procs <= 1 or graph.nedges < 3000:
        return [_task(list(range(n)))]
    groups = [list(range(n))[k::procs] for k in range(min(procs, n))]
    ctx = mp.get_context("fork")
    with ctx.Pool(len(groups)) as pool:
        return pool.map(_task, groups, chunksize=1)
