# -*- coding: utf-8 -*-
"""
Common machinery of the pyOMA2 verification harness.

* Ctx      - one check run: tier, seed, scratch directory, counters, verdicts, evidence
* run_tlc  - run TLC on a module/config of /verif/spec, collect the emitted transition
             relation ("TR" lines), the state counts and (optionally) the action coverage
* Known findings, replay files, exit codes (0 held, 1 violation, 2 machinery failure)

Nothing in here imports pyoma2.
"""
from __future__ import annotations

import hashlib
import json
import os
import re
import shutil
import subprocess
import sys
import tempfile
import time
import typing

VERIF = os.path.dirname(os.path.dirname(os.path.abspath(__file__)))
SPEC = os.path.join(VERIF, "spec")
_OUT = os.environ.get("VERIF_SELFTEST_OUT") if os.environ.get("VERIF_SELFTEST_REPO") else None  # self-test runs only
EVID = os.path.join(_OUT or VERIF, "evidence")
REPLAYS = os.path.join(_OUT or VERIF, "replays")
KNOWN = os.path.join(VERIF, "known_findings.json")
TLA_JAR = "/opt/veriftools/tla/tla2tools.jar"
TLA_CP = TLA_JAR + ":/opt/veriftools/tla/CommunityModules-deps.jar"


class MachineryFailure(Exception):
    """The check could not reach a verdict (exit 2). Never a VIOLATION."""


# --------------------------------------------------------------------------------------
# TLC
# --------------------------------------------------------------------------------------
_TR_RE = re.compile(r'<<"TR", ("(?:[^"\\]|\\.)*")>>')
_GEN_RE = re.compile(r"(\d+) states generated, (\d+) distinct states found")
_INIT_RE = re.compile(r"Finished computing initial states: (\d+) distinct state")
_INIT2_RE = re.compile(r"Finished computing initial states: (\d+) states generated, with (\d+) of them distinct")
_COV_RE = re.compile(r"^<(\w+) line (\d+), col (\d+) to line (\d+), col (\d+) of module (\w+)>: (\d+):(\d+)")


class TLCResult:
    def __init__(self):
        self.generated = 0
        self.distinct = 0
        self.initial = 0
        self.depth = 0
        self.transitions: typing.List[dict] = []
        self.coverage: typing.Dict[str, typing.Tuple[int, int]] = {}
        self.wall_s = 0.0
        self.cmd = ""
        self.stdout_path = ""
        self.prints: typing.List[str] = []


def write_cfg(path: str, *, init="Init", next_="Next", spec=None, constants=None,
              invariants=(), properties=(), constraints=(), action_constraints=(),
              view=None, postcondition=None, deadlock=False, symmetry=None):
    """Write a TLC configuration file. `constants` maps names to literal TLA+ text."""
    lines = []
    if spec:
        lines.append(f"SPECIFICATION {spec}")
    else:
        lines.append(f"INIT {init}")
        lines.append(f"NEXT {next_}")
    for k, v in (constants or {}).items():
        lines.append(f"CONSTANT {k} = {v}" if not str(v).startswith("<-") else f"CONSTANT {k} {v}")
    for i in invariants:
        lines.append(f"INVARIANT {i}")
    for p in properties:
        lines.append(f"PROPERTY {p}")
    for c in constraints:
        lines.append(f"CONSTRAINT {c}")
    for c in action_constraints:
        lines.append(f"ACTION_CONSTRAINT {c}")
    if view:
        lines.append(f"VIEW {view}")
    if postcondition:
        lines.append(f"POSTCONDITION {postcondition}")
    if symmetry:
        lines.append(f"SYMMETRY {symmetry}")
    lines.append(f"CHECK_DEADLOCK {'TRUE' if deadlock else 'FALSE'}")
    with open(path, "w") as f:
        f.write("\n".join(lines) + "\n")


def run_tlc(module: str, cfg: str, *, scratch: str, workers: int = 16, coverage: bool = False,
            simulate: typing.Optional[str] = None, depth: typing.Optional[int] = None,
            seed: typing.Optional[int] = None, env: typing.Optional[dict] = None,
            timeout: int = 3600, parse_transitions: bool = True, heap: str = "8g",
            keep_stdout: bool = False, on_line=None, raw: bool = False) -> TLCResult:
    """
    Run TLC on /verif/spec/<module>.tla with configuration file `cfg` (absolute path).
    Returns counts and the parsed transitions printed by the `Emit` action constraint.
    Raises MachineryFailure when TLC reports any error (an invariant violated *in the
    specification* is a bug of the model, never a verdict about pyOMA2).
    """
    if os.path.isabs(module):
        mod_path = module
        module = os.path.basename(module)[:-4]
    else:
        mod_path = os.path.join(SPEC, module + ".tla")
    meta = tempfile.mkdtemp(prefix="tlcmeta_", dir=scratch)
    out_path = os.path.join(scratch, f"tlc_{module}_{os.path.basename(cfg)}_{int(time.time()*1000)%100000}.out")
    # (java.io.tmpdir: TLC unpacks its standard modules into a fresh temporary directory per run and leaves it behind)
    cmd = ["java", "-XX:+UseParallelGC", f"-Xmx{heap}", f"-DTLA-Library={SPEC}", f"-Djava.io.tmpdir={meta}", "-cp", TLA_CP, "tlc2.TLC",
           "-workers", str(workers), "-metadir", meta, "-noGenerateSpecTE",
           "-config", cfg]
    if coverage:
        cmd += ["-coverage", "1"]
    if simulate is not None:
        cmd += ["-simulate", simulate]
    if depth is not None:
        cmd += ["-depth", str(depth)]
    if seed is not None:
        cmd += ["-seed", str(seed)]
    cmd.append(mod_path)
    e = dict(os.environ)
    e.update(env or {})
    t0 = time.time()
    with open(out_path, "w") as fo:
        try:
            p = subprocess.run(cmd, stdout=fo, stderr=subprocess.STDOUT, cwd=os.path.dirname(mod_path), env=e, timeout=timeout)
        except subprocess.TimeoutExpired:
            raise MachineryFailure(f"TLC timed out after {timeout}s on {module}/{cfg}")
    res = TLCResult()
    res.wall_s = time.time() - t0
    res.cmd = " ".join(cmd)
    res.stdout_path = out_path
    err_lines = []
    with open(out_path, "r", errors="replace") as f:
        for line in f:
            if line.startswith('<<"TR"'):
                if parse_transitions:
                    for m in _TR_RE.finditer(line):
                        obj = json.loads(m.group(1))
                        if not raw:
                            obj = json.loads(obj)
                        if on_line is not None:
                            on_line(obj)
                        else:
                            res.transitions.append(obj)
                continue
            if line.startswith("<<"):
                res.prints.append(line.rstrip("\n"))
                continue
            m = _GEN_RE.search(line)
            if m:
                res.generated, res.distinct = int(m.group(1)), int(m.group(2))
            m = _INIT_RE.search(line)
            if m:
                res.initial = int(m.group(1))
            m = _INIT2_RE.search(line)
            if m:
                # duplicates among the generated initial states are counted in "states generated"
                res.initial = int(m.group(1))
            if "depth of the complete state graph search is" in line:
                res.depth = int(re.search(r"is (\d+)", line).group(1))
            if coverage:
                m = _COV_RE.match(line.strip())
                if m:
                    res.coverage[m.group(1)] = (int(m.group(7)), int(m.group(8)))
            if line.startswith("Error:") or "is violated" in line or "Exception" in line and "java" in line:
                err_lines.append(line.strip())
    if p.returncode != 0 or err_lines:
        tail = subprocess.run(["tail", "-n", "40", out_path], capture_output=True, text=True).stdout
        # keep the output for diagnosis
        raise MachineryFailure(f"TLC failed on {module} ({cfg}) rc={p.returncode}: {err_lines[:3]}\n{tail}")
    if not keep_stdout:
        try:
            os.remove(out_path)
        except OSError:
            pass
    shutil.rmtree(meta, ignore_errors=True)
    return res


def sany(module: str) -> None:
    with tempfile.TemporaryDirectory(prefix="verif_sany_") as tmp:
        p = subprocess.run(["java", f"-Djava.io.tmpdir={tmp}", "-cp", TLA_CP, "tla2sany.SANY", os.path.join(SPEC, module + ".tla")],
                           capture_output=True, text=True, cwd=SPEC)
    if p.returncode != 0 or "Semantic errors" in p.stdout or "Parse Error" in p.stdout or "Fatal errors" in p.stdout:
        raise MachineryFailure(f"SANY rejected {module}:\n{p.stdout[-2000:]}")


# --------------------------------------------------------------------------------------
# TLA+ literal helpers (python -> cfg constants)
# --------------------------------------------------------------------------------------
class Raw(str):
    """TLA+ text passed through verbatim."""


def make_model(scratch: str, base: str, name: str, constants: dict, **cfgkw) -> typing.Tuple[str, str]:
    """Generate MC_<name>.tla (EXTENDS <base>, constants as definitions) and its .cfg in `scratch`."""
    mc = f"MC_{name}"
    lines = [f"---- MODULE {mc} ----", f"EXTENDS {base}"]
    sub = {}
    for k, v in constants.items():
        lines.append(f"c_{k} == {v if isinstance(v, Raw) else tla(v)}")
        sub[k] = f"<- c_{k}"
    lines.append("====")
    mpath = os.path.join(scratch, mc + ".tla")
    with open(mpath, "w") as f:
        f.write("\n".join(lines) + "\n")
    cpath = os.path.join(scratch, mc + ".cfg")
    write_cfg(cpath, constants=sub, **cfgkw)
    return mpath, cpath


def tla(v) -> str:
    """Render a python value as a TLA+ literal (ints, bools, strings, tuples/lists -> sequences,
    sets/frozensets -> sets, dicts with str keys -> records)."""
    if isinstance(v, Raw):
        return str(v)
    if isinstance(v, bool):
        return "TRUE" if v else "FALSE"
    if isinstance(v, int):
        return str(v)
    if isinstance(v, str):
        return json.dumps(v)
    if isinstance(v, (list, tuple)):
        return "<<" + ", ".join(tla(x) for x in v) + ">>"
    if isinstance(v, (set, frozenset)):
        return "{" + ", ".join(sorted(tla(x) for x in v)) + "}"
    if isinstance(v, dict):
        if v and all(isinstance(k, str) and k.isidentifier() for k in v):
            return "[" + ", ".join(f"{k} |-> {tla(x)}" for k, x in v.items()) + "]"
        if not v:
            return "<<>>"
        return "(" + " @@ ".join(f"{tla(k)} :> {tla(x)}" for k, x in v.items()) + ")"
    raise TypeError(type(v))


# --------------------------------------------------------------------------------------
# Check context
# --------------------------------------------------------------------------------------
class Ctx:
    def __init__(self, prop: str, tier: str, seed: int):
        self.prop = prop
        self.tier = tier
        self.seed = seed
        self.t0 = time.time()
        self.scratch = tempfile.mkdtemp(prefix=f"verif_{prop}_")
        self.states = 0
        self.transitions = 0
        self.traces = 0
        self.evaluations = 0
        self.nontrivial: typing.Set[str] = set()
        self.nontrivial_count = 0
        self.samples: typing.List[typing.Any] = []
        self.extra: typing.Dict[str, typing.Any] = {}
        self.assumptions: typing.List[str] = []
        self.trusted: typing.List[str] = []
        self.rule = ""
        self.exhaustive = False
        self.violations = 0
        self.known_hits: typing.Dict[str, int] = {}
        self._reported: typing.Set[str] = set()
        self.instances: typing.List[dict] = []
        self.known = load_known(prop)
        self.max_reports = 5
        self.viol_keys: typing.Dict[str, int] = {}

    # ---- TLC bookkeeping
    def tlc(self, module, cfg, **kw) -> TLCResult:
        kw.setdefault("scratch", self.scratch)
        r = run_tlc(module, cfg, **kw)
        self.states += r.distinct
        self.transitions += max(r.generated - r.initial, 0)
        self.instances.append({"module": module, "cfg": os.path.basename(cfg), "distinct_states": r.distinct,
                               "states_generated": r.generated, "initial_states": r.initial,
                               "depth": r.depth, "wall_s": round(r.wall_s, 2)})
        if r.coverage:
            self.instances[-1]["action_coverage"] = {k: v[1] for k, v in r.coverage.items()}
        return r

    def model(self, base: str, name: str, constants: dict, **cfgkw):
        return make_model(self.scratch, base, name, constants, **cfgkw)

    # ---- counting
    def count(self, n: int = 1):
        self.evaluations += n

    def mark_nontrivial(self, key):
        """Register a distinct non-trivial case (hashed, so memory stays bounded)."""
        h = hashlib.blake2b(repr(key).encode(), digest_size=8).digest()
        self.nontrivial.add(h)

    def sample(self, obj, cap: int = 4):
        if len(self.samples) < cap:
            self.samples.append(obj)

    # ---- verdicts
    def violation(self, key: str, what: str, replay: dict):
        """
        Report a behaviour of the real code that the specification does not allow.
        `key` identifies the failing call site / abstract case and is matched against
        known_findings.json (entries of kind "known"); anything not listed is a VIOLATION.
        """
        for kf in self.known:
            if kf.get("status") == "known" and re.fullmatch(kf["match"], key):
                self.known_hits[kf["id"]] = self.known_hits.get(kf["id"], 0) + 1
                if kf["id"] not in self._reported:
                    self._reported.add(kf["id"])
                    print(f"KNOWN-FINDING: property={self.prop} {kf['what']}", flush=True)
                return
        self.violations += 1
        self.viol_keys[key] = self.viol_keys.get(key, 0) + 1
        if self.violations <= self.max_reports or (self.viol_keys[key] == 1 and len(self.viol_keys) <= 40 and replay.get("note") is None):
            os.makedirs(os.path.join(REPLAYS, self.prop), exist_ok=True)
            body = {"property": self.prop, "key": key, "what": what, "seed": self.seed,
                    "tier": self.tier, "replay": replay}
            h = hashlib.blake2b(json.dumps(body, sort_keys=True, default=str).encode(), digest_size=6).hexdigest()
            path = os.path.join(REPLAYS, self.prop, f"{h}.json")
            with open(path, "w") as f:
                json.dump(body, f, indent=1, default=str)
            print(f"VIOLATION property={self.prop} replay={path}", flush=True)
            print(f"  key={key}\n  {what}", flush=True)

    def merge(self, col: "Collector"):
        if any(k.endswith("/no_return") for k, _, _ in col.viol):
            _TIMEOUTS["n"] = 2          # workers forked from now on skip their cases: the verdict is already a violation
        for key, what, replay in col.viol:
            self.violation(key, what, replay if replay is not None else {"note": "same key as an earlier replay"})
        self.evaluations += col.evaluations
        self.traces += col.traces
        self.nontrivial |= col.nontrivial
        for s in col.samples:
            self.sample(s)
        for k, v in col.extra.items():
            self.extra[k] = self.extra.get(k, 0) + v

    # ---- evidence
    def finish(self) -> int:
        cov = {
            "states": int(self.states),
            "transitions": int(self.transitions),
            "traces_validated_against_impl": int(self.traces),
            "samples": self.samples if self.samples else [{"note": "no sample recorded"}],
            "evaluations": int(self.evaluations),
            "distinct_nontrivial": int(len(self.nontrivial) + self.nontrivial_count),
            "rule": self.rule,
            "exhaustive": bool(self.exhaustive),
            "trusted_base": self.trusted,
            "tlc_instances": self.instances,
            "known_finding_hits": self.known_hits,
        }
        if self.viol_keys:
            cov["violation_keys"] = self.viol_keys
            print("violation keys:", json.dumps(self.viol_keys, indent=1), flush=True)
        cov.update(self.extra)
        ev = {
            "property_id": self.prop,
            "tier": self.tier,
            "seed": int(self.seed),
            "level": "model_checking",
            "coverage": cov,
            "assumptions": self.assumptions,
            "wall_s": round(time.time() - self.t0, 2),
            "violations": int(self.violations),
        }
        os.makedirs(EVID, exist_ok=True)
        with open(os.path.join(EVID, f"{self.prop}.json"), "w") as f:
            json.dump(ev, f, indent=1, default=str)
        shutil.rmtree(self.scratch, ignore_errors=True)
        if self.states < 1 or self.transitions < 1:
            print(f"MACHINERY-FAILURE property={self.prop} no TLC states explored", flush=True)
            return 2
        return 1 if self.violations else 0

    def abort(self):
        shutil.rmtree(self.scratch, ignore_errors=True)


class Collector:
    """Picklable accumulator used inside worker processes; merged into the Ctx by the parent."""

    def __init__(self, cap: int = 20):
        self.viol: typing.List[typing.Tuple[str, str, dict]] = []
        self.nviol = 0
        self.evaluations = 0
        self.traces = 0
        self.nontrivial: typing.Set[bytes] = set()
        self.samples: typing.List[typing.Any] = []
        self.extra: typing.Dict[str, int] = {}
        self.cap = cap

    def violation(self, key: str, what: str, replay: dict):
        self.nviol += 1
        if len(self.viol) < self.cap or not any(v[0] == key for v in self.viol):
            self.viol.append((key, what, replay))
        else:
            self.viol.append((key, what, None))

    def count(self, n: int = 1):
        self.evaluations += n

    def mark_nontrivial(self, key):
        self.nontrivial.add(hashlib.blake2b(repr(key).encode(), digest_size=8).digest())

    def sample(self, obj, cap: int = 2):
        if len(self.samples) < cap:
            self.samples.append(obj)

    def bump(self, name: str, n: int = 1):
        self.extra[name] = self.extra.get(name, 0) + n


def load_known(prop: str) -> typing.List[dict]:
    if not os.path.exists(KNOWN):
        return []
    with open(KNOWN) as f:
        data = json.load(f)
    return [k for k in data.get("findings", []) if k.get("property") == prop]


def chunks(seq, n):
    for i in range(0, len(seq), n):
        yield seq[i:i + n]


def seqify(x):
    """ToJson renders a TLA+ function over 0..n as an object with string keys: turn those into lists (recursively)."""
    if isinstance(x, dict):
        if x and all(k.lstrip("-").isdigit() for k in x):
            keys = sorted(x, key=int)
            if [int(k) for k in keys] == list(range(int(keys[0]), int(keys[0]) + len(keys))) and int(keys[0]) == 0:
                return [seqify(x[k]) for k in keys]
        return {k: seqify(v) for k, v in x.items()}
    if isinstance(x, list):
        return [seqify(v) for v in x]
    return x


def library_raised(exc) -> bool:
    """True when the exception was raised below a pyoma2 frame (i.e. by the code under test or something it called),
    False when it comes from the harness itself (then it is a machinery failure, not a verdict)."""
    import traceback

    frames = traceback.extract_tb(exc.__traceback__)
    last_harness = max((i for i, f in enumerate(frames) if "/verif/harness/" in f.filename or f.filename.endswith("/verif/check")), default=-1)
    return any("/pyoma2/" in f.filename for f in frames[last_harness + 1:])


def library_raise_site(exc):
    """'file.py:line' of the innermost pyoma2 frame when the exception was raised below the library (in this process or,
    for exceptions re-raised by multiprocessing, in a pool worker), else None"""
    import traceback

    if library_raised(exc):
        fr = [f for f in traceback.extract_tb(exc.__traceback__) if "/pyoma2/" in f.filename]
        return f"{os.path.basename(fr[-1].filename)}:{fr[-1].lineno}"
    cause = getattr(exc, "__cause__", None)
    tb = getattr(cause, "tb", None)
    if isinstance(tb, str):
        frames = re.findall(r'File "([^"]+)", line (\d+)', tb)
        last_h = max((i for i, (fn, _) in enumerate(frames) if "/verif/harness/" in fn or fn.endswith("/verif/check")), default=-1)
        lib = [(fn, ln) for fn, ln in frames[last_h + 1:] if "/pyoma2/" in fn]
        if lib:
            return f"{os.path.basename(lib[-1][0])}:{lib[-1][1]}"
    return None


class CaseTimeout(BaseException):      # not an Exception: the library's own `except Exception` must not swallow it
    pass


CASE_LIMIT_S = int(os.environ.get("VERIF_CASE_LIMIT_S", "300"))
_TIMEOUTS = {"n": 0}          # per process: after two cases that did not return, the remaining cases of this worker are skipped


def _on_alarm(signum, frame):
    raise CaseTimeout()


def guarded(col, fn, key, what, replay):
    """run one replay case; an exception raised inside the library is a violation, one raised by the harness propagates.
    A single case that does not return within CASE_LIMIT_S seconds (cases take milliseconds to a few seconds on the pinned
    tree) is a violation too: the library does not terminate on an input the specification enumerated."""
    import signal
    import threading

    if _TIMEOUTS["n"] >= 2:
        col.bump("cases_skipped_after_two_calls_that_did_not_return")
        return
    use_alarm = threading.current_thread() is threading.main_thread()
    if use_alarm:
        old = signal.signal(signal.SIGALRM, _on_alarm)
        signal.setitimer(signal.ITIMER_REAL, CASE_LIMIT_S)
    try:
        fn()
    except CaseTimeout:
        _TIMEOUTS["n"] += 1
        col.violation(f"{key}/no_return", f"{what}: the call did not return within {CASE_LIMIT_S} s", replay)
    except MachineryFailure:
        raise
    except Exception as e:
        if library_raised(e):
            import traceback

            where = [(os.path.basename(f.filename), f.lineno) for f in traceback.extract_tb(e.__traceback__) if "/pyoma2/" in f.filename][-2:]
            col.violation(f"{key}/raised:{type(e).__name__}", f"{what}: the library raised {e!r} at {where}", replay)
        else:
            raise
    finally:
        if use_alarm:
            signal.setitimer(signal.ITIMER_REAL, 0)
            signal.signal(signal.SIGALRM, old)


def run_tlaps(module: str, scratch: str, timeout: int = 600) -> typing.Tuple[int, int]:
    """Run the TLA+ proof system on spec/<module>.tla (copied to scratch); returns (obligations, proved)."""
    d = tempfile.mkdtemp(prefix="tlaps_", dir=scratch)
    shutil.copy(os.path.join(SPEC, module + ".tla"), d)
    try:
        p = subprocess.run(["tlapm", "--cleanfp", module + ".tla"], cwd=d, capture_output=True, text=True, timeout=timeout)
    except (subprocess.TimeoutExpired, FileNotFoundError) as e:
        raise MachineryFailure(f"tlapm could not be run on {module}: {e!r}")
    out = p.stdout + p.stderr
    m = re.search(r"All (\d+) obligations? proved", out)
    if m:
        return int(m.group(1)), int(m.group(1))
    m = re.search(r"(\d+)/(\d+) obligations? failed", out)
    if m:
        return int(m.group(2)), int(m.group(2)) - int(m.group(1))
    raise MachineryFailure(f"tlapm output not understood for {module}:\n{out[-1500:]}")


def run_apalache(module: str, scratch: str, args: typing.List[str], timeout: int = 900) -> bool:
    """apalache-mc check on spec/<module>.tla; True iff no error was reported."""
    d = tempfile.mkdtemp(prefix="apa_", dir=scratch)
    shutil.copy(os.path.join(SPEC, module + ".tla"), d)
    try:
        p = subprocess.run(["apalache-mc", "check", f"--out-dir={d}/out"] + args + [module + ".tla"], cwd=d, capture_output=True, text=True,
                           timeout=timeout)
    except (subprocess.TimeoutExpired, FileNotFoundError) as e:
        raise MachineryFailure(f"apalache could not be run on {module}: {e!r}")
    if "EXITCODE: OK" in p.stdout:
        return True
    if "EXITCODE: ERROR (12)" in p.stdout or "violat" in p.stdout.lower():
        return False
    raise MachineryFailure(f"apalache output not understood for {module}:\n{p.stdout[-1500:]}")
