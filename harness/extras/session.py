# -*- coding: utf-8 -*-
"""
Extra behaviour coverage (no property id): Session.tla replayed into a real SingleSetup.

TLC enumerates every behaviour of Session.tla up to MaxLen calls; the transition graph is walked depth-first with one
real setup object per path (deep-copied at branches).  After every call the outcome (returned / exception class) and the
projected state (registry with added / ran / mpe, geometries defined) must equal the specification's, and the data array
must be bit-identical to what it was before the call.  Deviations are *observations*: they are written to
/verif/extras/session.json and printed as `EXTRA-DEVIATION` lines; the exit code is 0 unless the machinery fails,
because no listed property quantifies over these calls.
"""
from __future__ import annotations

import copy
import json
import multiprocessing as mp
import os
import tempfile

import numpy as np

from .. import core, headless, walk

FS = 50.0


def make_data():
    rng = np.random.default_rng(7)
    t = np.arange(1200) / FS
    return np.stack([np.sin(2 * np.pi * 3.0 * t) * a + 0.3 * np.sin(2 * np.pi * 7.0 * t + 1.0) * b + 0.05 * rng.standard_normal(len(t))
                     for a, b in ((1.0, 0.5), (-0.6, 1.0), (0.4, -0.7), (0.8, 0.3))], axis=1)


SETUP_KIND = "single"          # "single" (SingleSetup) or "preger" (MultiSetup_PreGER with two datasets); set by run()


def make_alg(kind, name):
    from pyoma2 import algorithms as A

    ms = SETUP_KIND == "preger"
    loose = dict(conj=True, xi_max=1.0, mpc_lim=0.0, mpd_lim=10.0, cov_max=1e9)
    if kind == "FDD":
        return (A.FDD_MS if ms else A.FDD)(name=name, nxseg=128)
    if kind == "SSI":
        return (A.SSIcov_MS if ms else A.SSIcov)(name=name, br=6, ordmax=8, hc=loose)
    return (A.pLSCF_MS if ms else A.pLSCF)(name=name, ordmax=5, nxseg=128, method_SD="cor",
                                             hc=dict(conj=False, xi_max=1.0, mpc_lim=0.0, mpd_lim=2.0))


def mpe_kwargs(alg):
    from ..props.c15 import mpe_args

    return mpe_args(alg)


def def_geo(s, k):
    import pandas as pd

    single = SETUP_KIND == "single"
    names = ["a", "b", "c"] if single else ["REF1", "REF2", "c", "d"]       # multi-setup: references are renamed REF1..REFk
    arg = names if single else [["a", "b", "c"], ["a", "b", "d"]]
    if k == 1:
        s.def_geo1(sens_names=arg, sens_coord=pd.DataFrame([[float(i), 0, 0] for i in range(len(names))], index=names, columns=["x", "y", "z"]),
                   sens_dir=np.array([[1, 0, 0]] * len(names)))
    else:
        pts = pd.DataFrame([[0, 0, 0.0], [1, 0, 0]], index=["P1", "P2"], columns=["x", "y", "z"])
        mp_ = pd.DataFrame([[names[0], names[1], 0.0], ["c", 0.0, 0.0 if single else "d"]], index=pts.index, columns=["x", "y", "z"], dtype=object)
        s.def_geo2(sens_names=arg, pts_coord=pts, sens_map=mp_)


class World:
    def __init__(self):
        from pyoma2.setup import MultiSetup_PreGER, SingleSetup

        x = make_data()
        if SETUP_KIND == "single":
            self.setup = SingleSetup(x[:, :3].copy(), fs=FS)
        else:      # two setups sharing the reference sensors a, b; roving c and d
            self.setup = MultiSetup_PreGER(fs=FS, ref_ind=[[0, 1], [0, 1]], datasets=[x[:, [0, 1, 2]].copy(), x[:, [0, 1, 3]].copy()])

    def project(self):
        s = self.setup
        reg = []
        for name, a in s.algorithms.items():
            kind = {"FDD": "FDD", "SSIcov": "SSI", "pLSCF": "PLS"}[type(a).__name__.replace("_MS", "")]
            st = "added" if a.result is None else ("mpe" if a.result.Fn is not None else "ran")
            reg.append({"name": name, "kind": kind, "st": st})
        return {"reg": reg, "geo": {"g1": s.geo1 is not None, "g2": s.geo2 is not None}}


def snapshot(setup):
    d = setup.data
    if isinstance(d, np.ndarray):
        return [d.copy()]
    return [np.array(x[k], copy=True) for x in d for k in ("ref", "mov")]


def same_snapshot(a, b):
    return len(a) == len(b) and all(x.shape == y.shape and np.array_equal(x, y) for x, y in zip(a, b))


def apply(world, act):
    import matplotlib.pyplot as plt

    s = world.setup
    n = act["name"]
    try:
        if n == "Add":
            s.add_algorithms(make_alg(act["kind"], act["alg"]))
        elif n == "Run":
            s.run_by_name(act["alg"])
        elif n == "RunAll":
            s.run_all()
        elif n == "Mpe":
            a = s.algorithms.get(act["alg"])
            s.mpe(act["alg"], **(mpe_kwargs(a) if a is not None else {"sel_freq": [3.0]}))
        elif n == "MpeFromPlot":
            a = s.algorithms.get(act["alg"])
            kind = type(a).__name__.replace("_MS", "") if a is not None else "FDD"
            events = [{"name": "KeyPress", "key": "shift"}]
            for j in range(int(act["picks"])):
                events.append({"name": "Click", "b": 1, "x": 3.0 + 4.0 * j, "y": 16 + 4 * j})
            with headless.scripted(events, 1.0, []), headless.light_plots():
                if kind == "FDD":
                    s.mpe_from_plot(act["alg"], DF=0.8)
                else:
                    s.mpe_from_plot(act["alg"])
        elif n == "DefGeo":
            def_geo(s, int(act["k"]))
        elif n == "Rollback":
            s.rollback()
        elif n == "SaveLoad":
            from pyoma2.functions.gen import load_from_file, save_to_file

            fd, path = tempfile.mkstemp(suffix=".pkl")
            os.close(fd)
            try:
                save_to_file(s, path)
                world.setup = load_from_file(path)
            finally:
                os.remove(path)
        elif n == "GetItem":
            s[act["alg"]]
        elif n == "Get":
            r = s.get(act["alg"])
            if (r is not None) != bool(act["found"]):
                return "WrongLookup"
        elif n == "PlotSetup":
            (s.plot_data if act["what"] == "data" else s.plot_ch_info)()
        elif n == "PlotGeo":
            (s.plot_geo1 if int(act["k"]) == 1 else s.plot_geo2_mpl)()
        elif n == "PlotMode":
            res = s[act["alg"]].result
            (s.plot_mode_geo1 if int(act["k"]) == 1 else s.plot_mode_geo2_mpl)(res, mode_nr=1)
        elif n == "AlgPlot":
            a = s[act["alg"]]
            (a.plot_CMIF if type(a).__name__.startswith("FDD") else a.plot_stab)()
        else:
            raise AssertionError(act)
        return "ok"
    except AssertionError:
        raise
    except Exception as e:                                  # noqa: BLE001 - the outcome of a rejected call is its exception class
        return type(e).__name__
    finally:
        plt.close("all")


def walk_group(args):
    import logging

    import matplotlib.pyplot as plt

    logging.disable(logging.CRITICAL)
    plt.tight_layout = lambda *a, **k: None
    edges, first_acts = args
    succ = {}
    for t in edges:
        succ.setdefault(walk.key(t["pre"]), []).append((t["act"], t["out"], t["post"]))
    dev, stats = [], {"edges": 0, "behaviours": 0, "by_action": {}}
    init = {"reg": [], "geo": {"g1": False, "g2": False}, "len": 0}

    visited = set()

    def rec(state_k, world, path, only):
        acts = succ.get(state_k, [])
        if not acts:
            stats["behaviours"] += 1
        if only is None:
            if state_k in visited:                       # graph walk: every (abstract state, call) edge once per group
                return
            visited.add(state_k)
        for act, exp_out, post in acts:
            if only is not None and walk.key(act) not in only:
                continue
            w = copy.deepcopy(world)
            before = snapshot(w.setup)
            out = apply(w, act)
            stats["edges"] += 1
            stats["by_action"][act["name"]] = stats["by_action"].get(act["name"], 0) + 1
            got = w.project()
            bad = []
            if out != exp_out:
                bad.append(f"outcome {out}, specification {exp_out}")
            if got["reg"] != post["reg"] or got["geo"] != post["geo"]:
                bad.append(f"state {got}, specification {{'reg': {post['reg']}, 'geo': {post['geo']}}}")
            if act["name"] != "Rollback" and not same_snapshot(snapshot(w.setup), before):
                bad.append("the data array changed")
            if bad:
                dev.append({"path": path + [act], "what": "; ".join(bad)})
                continue
            rec(walk.key(post), w, path + [act], None)

    rec(walk.key(init), World(), [], set(first_acts))
    return dev, stats


def run(tier="quick", seed=0):
    rc = 0
    for kind in ("single", "preger"):
        rc = max(rc, run_kind(kind, tier, seed))
    return rc


def run_kind(kind, tier, seed):
    global SETUP_KIND
    SETUP_KIND = kind
    scratch = tempfile.mkdtemp(prefix="verif_session_")
    quick = tier == "quick"
    consts = {"Algs": core.Raw('{[name |-> "a", kind |-> "FDD"], [name |-> "b", kind |-> "SSI"]'
                               + (', [name |-> "a", kind |-> "PLS"]' if True else "") + "}"),
              "Names": {"a", "b"} if quick else {"a", "b", "zz"}, "PickCounts": {1} if quick else {1, 2},
              "MaxLen": 5 if quick else 7}
    mod, cfg = core.make_model(scratch, "Session", "session", consts,
                               invariants=["UniqueNames", "TypeOK"],
                               properties=["ObserversArePure", "RejectedCallsChangeNothing", "ModeShapeOnlyAfterExtraction",
                                           "ExtractionOnlyAfterRun", "GeometryIsMonotone"],
                               action_constraints=["Emit"], view="View")
    r = core.run_tlc(mod, cfg, scratch=scratch, raw=True)
    trans = [json.loads(ln) for ln in r.transitions]
    if len(trans) != r.generated - r.initial:
        raise core.MachineryFailure("emitted transition count differs from TLC's")
    # graph walk: the abstract state determines every outcome, so every (state, call) edge is executed once per group of
    # first calls (16 groups in parallel), on the concrete object of the first path that reached the state
    firsts = sorted({walk.key(t["act"]) for t in trans if t["pre"]["len"] == 0})
    groups = [firsts[i::16] for i in range(16) if firsts[i::16]]
    with mp.get_context("fork").Pool(16) as pool:
        res = pool.map(walk_group, [(trans, f) for f in groups])
    dev = [d for dd, _ in res for d in dd]
    stats = {"edges": sum(s["edges"] for _, s in res), "behaviours": sum(s["behaviours"] for _, s in res), "by_action": {}}
    for _, s in res:
        for k, v in s["by_action"].items():
            stats["by_action"][k] = stats["by_action"].get(k, 0) + v
    out = {"module": "Session.tla", "setup": kind, "tier": tier, "tlc": {"distinct_states": r.distinct, "states_generated": r.generated},
           "transitions_emitted": len(trans), "edges_replayed": stats["edges"], "complete_behaviours": stats["behaviours"],
           "replayed_by_action": stats["by_action"], "deviations": len(dev), "deviation_samples": dev[:10]}
    os.makedirs("/verif/extras", exist_ok=True)
    with open(f"/verif/extras/session_{kind}.json", "w") as f:
        json.dump(out, f, indent=1, default=str)
    for d in dev[:10]:
        print(f"EXTRA-DEVIATION module=Session setup={kind} " + json.dumps(d, default=str)[:500])
    import shutil

    shutil.rmtree(scratch, ignore_errors=True)
    print(f"extra session setup={kind} tier={tier} states={r.distinct} transitions={len(trans)} edges_replayed={stats['edges']} "
          f"behaviours={stats['behaviours']} deviations={len(dev)}")
    return 0
