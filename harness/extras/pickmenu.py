# -*- coding: utf-8 -*-
"""
Extra behaviour coverage (no property id): PickMenu.tla (Pick.tla + the view switches of the dialog's menu) replayed into
a real head-less SelFromPlot dialog of the SSI and pLSCF variants.  After every event the lists, the selection marker, the
modifier flag and the two view flags must equal the specification's post-state.  Deviations are observations
(`EXTRA-DEVIATION`, /verif/extras/pickmenu.json); exit 0 unless the machinery fails.
"""
from __future__ import annotations

import json
import os
import shutil
import tempfile

from .. import core, headless, walk
from ..core import Raw
from ..props import c16


def run_table(t, scratch, tier):
    F = t["F"]
    consts = {"F": Raw("<<" + ", ".join("<<" + ", ".join(str(v) for v in row) + ">>" for row in F) + ">>"),
              "NR": len(F), "NC": len(F[0]), "Xs": set(t["xs"]), "Ys": set(t["ys"]), "Keys": {"shift"},
              "InitShift": True, "MaxLen": t["maxlen"]}
    mod, cfg = core.make_model(scratch, "PickMenu", "menu_" + t["name"], consts, init="MInit", next_="MNext",
                               invariants=["Paired", "Sorted"],
                               properties=["SelectionSurvivesRedraw", "ViewSwitchesAreIndependentOfPicks", "NoOpWithoutModifier"],
                               action_constraints=["MEmit"], view="MView")
    r = core.run_tlc(mod, cfg, scratch=scratch)
    if len(r.transitions) != r.generated - r.initial:
        raise core.MachineryFailure("emitted transition count differs from TLC's")
    succ = {}
    for tr in r.transitions:
        succ.setdefault(walk.key(tr["pre"]), {}).setdefault(walk.key(tr["act"]), []).append(tr["post"])
    d = headless.new_dialog(c16.make_algo(t), t["variant"])
    dev, edges, visited = [], 0, set()

    def restore(st):
        d.sel_freq = [p[0] * c16.Q for p in st["sel"]]
        d.pole_ind = [p[1] for p in st["sel"]]
        d.shift_is_held = st["shift"]
        d.hide_poles, d.show_legend = bool(st["hide"]), bool(st["legend"])
        d.plot_stab(d.plot)

    def rec(st, path):
        nonlocal edges
        k = walk.key(st)
        if k in visited:
            return
        visited.add(k)
        for ak, posts in succ.get(k, {}).items():
            act = json.loads(ak)
            restore(st)
            try:
                if act["name"] == "ToggleHide":
                    d.toggle_hide_poles(int(act["x"]))
                elif act["name"] == "ToggleLegend":
                    d.toggle_legend(int(act["x"]))
                else:
                    headless.fire(d, act, c16.Q)
                raised = None
            except AssertionError:
                raise
            except Exception as e:                           # noqa: BLE001
                raised = type(e).__name__
            edges += 1
            pairs, mk, shift, lists_ok = c16.project(d, t["variant"])
            hit = None
            for post in posts:
                if (sorted(post["sel"]) == pairs and sorted(post["sel"]) == mk and post["shift"] == shift and lists_ok
                        and bool(d.hide_poles) == post["hide"] and bool(d.show_legend) == post["legend"] and raised is None):
                    hit = post
                    break
            if hit is None:
                dev.append({"table": t["name"], "path": path + [act],
                            "what": f"lists {pairs}, marker {mk}, shift {shift}, hide {bool(d.hide_poles)}, legend {bool(d.show_legend)}, "
                                    f"raised {raised}; specification allows {[(p['sel'], p['hide'], p['legend']) for p in posts]}"})
                continue
            rec(hit, path + [act])

    with headless.light_plots():
        rec({"sel": [], "shift": True, "len": 0, "hide": True, "legend": False}, [])
    return r, edges, dev


def run(tier="quick", seed=0):
    import logging

    logging.disable(logging.CRITICAL)
    scratch = tempfile.mkdtemp(prefix="verif_pickmenu_")
    t_ssi = [[c16.NAN, 40, 40, 41], [c16.NAN, c16.NAN, 80, 80], [c16.NAN, c16.NAN, c16.NAN, 82]]
    t_pl = [[40, 40, 41], [c16.NAN, 80, 80], [c16.NAN, c16.NAN, 82]]
    ml = 3 if tier == "quick" else 4
    tables = [dict(name="ssi", variant="SSI", F=t_ssi, xs=[38, 81], ys=[5, 9], maxlen=ml),
              dict(name="plscf", variant="pLSCF", F=t_pl, xs=[38, 81], ys=[1, 5], maxlen=ml)]
    out, total_dev = {"module": "PickMenu.tla", "tier": tier, "tables": {}}, []
    for t in tables:
        r, edges, dev = run_table(t, scratch, tier)
        out["tables"][t["name"]] = {"distinct_states": r.distinct, "transitions": len(r.transitions), "edges_replayed": edges,
                                    "deviations": len(dev)}
        total_dev += dev
        print(f"extra pickmenu table={t['name']} tier={tier} states={r.distinct} transitions={len(r.transitions)} "
              f"edges_replayed={edges} deviations={len(dev)}")
    out["deviations"] = len(total_dev)
    out["deviation_samples"] = total_dev[:10]
    os.makedirs("/verif/extras", exist_ok=True)
    with open("/verif/extras/pickmenu.json", "w") as f:
        json.dump(out, f, indent=1, default=str)
    for dv in total_dev[:10]:
        print("EXTRA-DEVIATION module=PickMenu " + json.dumps(dv, default=str)[:500])
    shutil.rmtree(scratch, ignore_errors=True)
    return 0
