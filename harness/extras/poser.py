# -*- coding: utf-8 -*-
"""
Extra behaviour coverage (no property id): PoserSession.tla replayed into a real MultiSetup_PoSER built from two real
SingleSetups (FDD + SSIcov run and extracted on a two-tone record).  Same contract as extras/session.py: deviations are
observations (`EXTRA-DEVIATION`, /verif/extras/poser.json), exit 0 unless the machinery fails.
"""
from __future__ import annotations

import copy
import json
import os
import shutil
import tempfile

import numpy as np

from .. import core, walk
from .session import FS, make_data


def build(equal, damped=True):
    from pyoma2 import algorithms as A
    from pyoma2.setup import MultiSetup_PoSER, SingleSetup

    x = make_data()
    loose = dict(conj=True, xi_max=1.0, mpc_lim=0.0, mpd_lim=10.0, cov_max=1e9)
    setups = []
    for j, cols in enumerate(([0, 1, 2], [0, 1, 3])):
        s = SingleSetup(x[:, cols].copy(), fs=FS)
        first = A.SSIdat(name="first", br=10, ordmax=12, hc=loose) if damped else A.FDD(name="first", nxseg=128)
        s.add_algorithms(first, A.SSIcov(name="ssi", br=10, ordmax=12, hc=loose))
        s.run_all()
        sel = [3.0, 7.0] if (equal or j == 0) else [3.0]
        s.mpe("first", sel_freq=sel, **({"order": 12} if damped else {"DF": 0.8}))
        s.mpe("ssi", sel_freq=sel, order=12)
        setups.append(s)
    return MultiSetup_PoSER(ref_ind=[[0, 1], [0, 1]], single_setups=setups, names=["FIRST", "SSI"])


def def_geo(p, k):
    import pandas as pd

    names = ["REF1", "REF2", "c", "d"]
    arg = [["a", "b", "c"], ["a", "b", "d"]]
    if k == 1:
        p.def_geo1(sens_names=arg, sens_coord=pd.DataFrame([[float(i), 0, 0] for i in range(4)], index=names, columns=["x", "y", "z"]),
                   sens_dir=np.array([[1, 0, 0]] * 4))
    else:
        pts = pd.DataFrame([[0, 0, 0.0], [1, 0, 0]], index=["P1", "P2"], columns=["x", "y", "z"])
        mp_ = pd.DataFrame([["REF1", "REF2", 0.0], ["c", 0.0, "d"]], index=pts.index, columns=["x", "y", "z"], dtype=object)
        p.def_geo2(sens_names=arg, pts_coord=pts, sens_map=mp_)


def apply(p, act):
    import matplotlib.pyplot as plt

    n = act["name"]
    try:
        if n == "Merge":
            p.merge_results()
        elif n == "ReadResult":
            p.result[act["alg"]]
        elif n == "SetSetups":
            p.setups = list(p.setups)
        elif n == "DefGeo":
            def_geo(p, int(act["k"]))
        elif n == "PlotGeo":
            (p.plot_geo1 if int(act["k"]) == 1 else p.plot_geo2_mpl)()
        elif n == "PlotMode":
            res = p.result[act["alg"]]
            (p.plot_mode_geo1 if int(act["k"]) == 1 else p.plot_mode_geo2_mpl)(res, mode_nr=1)
        else:
            raise AssertionError(act)
        return "ok"
    except AssertionError:
        raise
    except Exception as e:                                  # noqa: BLE001
        return type(e).__name__
    finally:
        plt.close("all")


def project(p):
    try:
        p.result
        merged = True
    except ValueError:
        merged = False
    return {"merged": merged, "geo": {"g1": p.geo1 is not None, "g2": p.geo2 is not None}}


def results_of(p):
    return [copy.deepcopy(dict(a.result)) for s in p.setups for a in s.algorithms.values()]


def run(tier="quick", seed=0):
    import logging

    import matplotlib.pyplot as plt

    logging.disable(logging.CRITICAL)
    plt.tight_layout = lambda *a, **k: None
    scratch = tempfile.mkdtemp(prefix="verif_poser_")
    consts = {"AlgNames": {"FIRST", "SSI"}, "Lookups": {"FIRST", "SSI", "zz"}, "EqualModes": {True, False}, "Damped": {True, False},
              "MaxLen": 4 if tier == "quick" else 6}
    mod, cfg = core.make_model(scratch, "PoserSession", "poser", consts, invariants=["NeverMergedWhenUnequal"],
                               properties=["ResultOnlyAfterMerge", "MergeIsStable", "RejectedCallsChangeNothing"],
                               action_constraints=["Emit"], view="View")
    r = core.run_tlc(mod, cfg, scratch=scratch, raw=True)
    trans = [json.loads(ln) for ln in r.transitions]
    if len(trans) != r.generated - r.initial:
        raise core.MachineryFailure("emitted transition count differs from TLC's")
    from ..props.c15 import same_obj

    dev, edges = [], 0
    for equal, damped in ((True, True), (False, True), (True, False), (False, False)):
        succ = {}
        for t in trans:
            if t["equal"] == equal and t["damped"] == damped:
                succ.setdefault(walk.key(t["pre"]), []).append((t["act"], t["out"], t["post"]))
        base = build(equal, damped)
        visited = set()

        def rec(sk, world, path):
            nonlocal edges
            if sk in visited:
                return
            visited.add(sk)
            for act, exp_out, post in succ.get(sk, []):
                w = copy.deepcopy(world)
                before = results_of(w)
                out = apply(w, act)
                edges += 1
                got = project(w)
                bad = []
                if out != exp_out:
                    bad.append(f"outcome {out}, specification {exp_out}")
                if got["merged"] != post["merged"] or got["geo"] != post["geo"]:
                    bad.append(f"state {got}, specification {post}")
                if not all(same_obj(a, b) for a, b in zip(results_of(w), before)):
                    bad.append("a per-setup result changed")
                if bad:
                    dev.append({"equal_mode_counts": equal, "all_classes_damped": damped, "path": path + [act], "what": "; ".join(bad)})
                    continue
                rec(walk.key(post), w, path + [act])

        rec(walk.key({"merged": False, "geo": {"g1": False, "g2": False}, "len": 0}), base, [])
    out = {"module": "PoserSession.tla", "tier": tier, "tlc": {"distinct_states": r.distinct, "states_generated": r.generated},
           "transitions_emitted": len(trans), "edges_replayed": edges, "deviations": len(dev), "deviation_samples": dev[:10]}
    os.makedirs("/verif/extras", exist_ok=True)
    with open("/verif/extras/poser.json", "w") as f:
        json.dump(out, f, indent=1, default=str)
    for d in dev[:10]:
        print("EXTRA-DEVIATION module=PoserSession " + json.dumps(d, default=str)[:500])
    shutil.rmtree(scratch, ignore_errors=True)
    print(f"extra poser tier={tier} states={r.distinct} transitions={len(trans)} edges_replayed={edges} deviations={len(dev)}")
    return 0
