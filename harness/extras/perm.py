# -*- coding: utf-8 -*-
"""
Extra behaviour coverage (no property id): Perm.tla replayed into the real gen.invperm / gen.find_map.

TLC enumerates every permutation of 0 .. N-1 (invperm) and every ordered pair of permutations (find_map) and checks the
algebra on the specification (inverse composes to the identity both ways, the map preserves ranks, maps compose).  The
harness calls the real functions on each case - ranks mapped to distinct keys by strictly increasing maps (integers,
floats with a negative offset, zero-padded strings) - and compares the returned index array element by element, its
dtype kind (integer) and that the inputs are left untouched.  Deviations are observations (`EXTRA-DEVIATION`,
/verif/extras/perm.json); exit 0 unless the machinery fails.
"""
from __future__ import annotations

import json
import multiprocessing as mp
import os
import shutil
import tempfile

import numpy as np

from .. import core

KEYMAPS = {
    "int": lambda r: np.array(r, dtype=int),
    "float": lambda r: np.array([2.5 * x - 3.25 for x in r]),
    "str": lambda r: np.array([f"ch{x:03d}" for x in r]),
}


def check_case(t):
    from pyoma2.functions import gen

    c, out = t["cfg"], t["out"]
    a, b, m = core.seqify(c["a"]), core.seqify(c["b"]), core.seqify(out["m"])
    bad = []
    if c["op"] == "invperm":
        p = np.array(a, dtype=int)
        p0 = p.copy()
        got = np.asarray(gen.invperm(p))
        if got.shape != (len(a),) or got.dtype.kind not in "iu" or got.tolist() != m:
            bad.append(f"invperm({a}) = {got.tolist()} ({got.dtype}), specification {m}")
        if not np.array_equal(p, p0):
            bad.append("invperm changed its argument")
        return bad
    for kind, f in KEYMAPS.items():
        x, y = f(a), f(b)
        x0, y0 = x.copy(), y.copy()
        got = np.asarray(gen.find_map(x, y))
        if got.shape != (len(a),) or got.dtype.kind not in "iu" or got.tolist() != m:
            bad.append(f"find_map over {kind} keys of ranks {a} -> {b} = {got.tolist()} ({got.dtype}), specification {m}")
            break
        if not (np.array_equal(x, x0) and np.array_equal(y, y0)):
            bad.append("find_map changed an argument")
            break
        if not np.array_equal(y[got], x) and kind == "int":
            bad.append(f"b[find_map(a, b)] != a for ranks {a} -> {b}")
            break
    return bad


def _chunk(lines):
    dev, n = [], 0
    for ln in lines:
        t = json.loads(ln)
        n += 1
        try:
            bad = check_case(t)
        except Exception as e:                               # noqa: BLE001
            if not core.library_raised(e):
                raise
            bad = [f"raised {type(e).__name__}: {e}"]
        if bad:
            dev.append({"cfg": t["cfg"], "what": "; ".join(bad)})
    return dev, n


def run(tier="quick", seed=0):
    scratch = tempfile.mkdtemp(prefix="verif_perm_")
    n = 4 if tier == "quick" else 5
    inv = ["ResultIsPermutation", "InverseComposes", "InverseTwice", "MapPreservesRank", "MapOfSelfIsIdentity"]
    if tier == "quick":
        inv.append("MapsCompose")
    mod, cfg = core.make_model(scratch, "Perm", "perm", {"N": n}, invariants=inv, action_constraints=["Emit"], view="View")
    r = core.run_tlc(mod, cfg, scratch=scratch, raw=True)
    if len(r.transitions) != r.generated - r.initial:
        raise core.MachineryFailure("emitted transition count differs from TLC's")
    chunks = list(core.chunks(r.transitions, max(1, len(r.transitions) // 64)))
    with mp.get_context("fork").Pool(16) as pool:
        res = pool.map(_chunk, chunks)
    dev = [d for dd, _ in res for d in dd]
    k = sum(x for _, x in res)
    out = {"module": "Perm.tla", "tier": tier, "N": n, "tlc": {"distinct_states": r.distinct, "states_generated": r.generated},
           "cases_replayed": k, "deviations": len(dev), "deviation_samples": dev[:10]}
    os.makedirs("/verif/extras", exist_ok=True)
    with open("/verif/extras/perm.json", "w") as f:
        json.dump(out, f, indent=1, default=str)
    for d in dev[:10]:
        print("EXTRA-DEVIATION module=Perm " + json.dumps(d, default=str)[:500])
    shutil.rmtree(scratch, ignore_errors=True)
    print(f"extra perm tier={tier} states={r.distinct} cases_replayed={k} deviations={len(dev)}")
    return 0
