# -*- coding: utf-8 -*-
"""
Extra behaviour coverage (no property id): BellSupport.tla replayed into the real fdd.SDOF_bellandMS.

For every (selected position, band half-width, dominance pattern, method) enumerated by TLC the harness builds a rank-two
spectral matrix per line - the mode's shape phi dominant where the pattern says so, an orthogonal shape elsewhere - and
compares the returned bell with the specification: non-zero exactly on the predicted support, equal there to the mode's
spectral level (first singular value for EFDD, phi^H Sy phi for FSDD), mode-shape rows equal to phi (MAC 1) there and zero
elsewhere.  Positions are expressed on the grid the function itself uses (line l at l fs / (2 NL), NL = number of lines -
slightly finer than the true grid fs / (2 (NL - 1)): a named deviation of the code).  Deviations are observations
(`EXTRA-DEVIATION`, /verif/extras/bell.json); exit 0 unless the machinery fails.
"""
from __future__ import annotations

import json
import multiprocessing as mp
import os
import shutil
import tempfile

import numpy as np

from .. import core

PHI = np.array([2.0, 1.0, -2.0]) / 3.0            # unit norm
PSI = np.array([1.0, -2.0, 0.0]) / np.sqrt(5.0)   # orthogonal to PHI


def check_case(t):
    from pyoma2.functions import fdd

    c, out = t["cfg"], core.seqify(t["out"])
    nl = len(c["dom"])
    fs = 64.0
    dt = 1.0 / fs
    step = fs / (2 * nl)                          # the function's own grid
    level = np.array([2.0 + (l % 3) for l in range(nl)])
    Sy = np.zeros((3, 3, nl), dtype=complex)
    for l in range(nl):
        other = 0.25 * level[l] if c["dom"][l] else 3.0 * level[l]
        Sy[:, :, l] = level[l] * np.outer(PHI, PHI) + other * np.outer(PSI, PSI)
    bell, ms = fdd.SDOF_bellandMS(Sy, dt, c["sel"] / 4.0 * step, PHI.astype(complex), method=c["method"], cm=1, MAClim=0.85,
                                  DF=c["df"] / 4.0 * step)
    bell, ms = np.asarray(bell), np.asarray(ms)
    bad = []
    if bell.shape != (nl,) or ms.shape != (nl, 3):
        return [f"shapes {bell.shape} / {ms.shape}, expected {(nl,)} / {(nl, 3)}"]
    supp = [bool(x) for x in out["support"]]
    got = [bool(abs(b) > 0) for b in bell]
    if got != supp:
        bad.append(f"support {[i for i, g in enumerate(got) if g]}, specification {[i for i, g in enumerate(supp) if g]} "
                   f"(band [{out['lo']}, {out['hi']}))")
    else:
        for l in range(nl):
            if supp[l]:
                if abs(bell[l] - level[l]) > 1e-9 * level[l]:
                    bad.append(f"line {l}: bell {bell[l]}, spectral level of the mode {level[l]}")
                    break
                m = abs(np.vdot(ms[l], PHI)) ** 2 / (np.vdot(ms[l], ms[l]).real * 1.0)
                if not m > 1 - 1e-9:
                    bad.append(f"line {l}: shape row has MAC {m} with the mode shape")
                    break
            elif np.abs(ms[l]).max() > 0:
                bad.append(f"line {l}: shape row not zero outside the support")
                break
    return bad


def _chunk(lines):
    import logging

    logging.disable(logging.CRITICAL)
    dev, n = [], 0
    for ln in lines:
        t = json.loads(ln)
        n += 1
        try:
            bad = check_case(t)
        except Exception as e:                               # noqa: BLE001
            if not core.library_raised(e):
                raise
            bad = [f"raised {type(e).__name__}: {e}"]
        if bad:
            dev.append({"cfg": t["cfg"], "what": "; ".join(bad)})
    return dev, n


def run(tier="quick", seed=0):
    scratch = tempfile.mkdtemp(prefix="verif_bell_")
    nl = 7 if tier == "quick" else 9
    pats = "[1..%d -> BOOLEAN]" % nl
    consts = {"NL": nl, "Sels": set(range(4, 4 * (nl - 1), 3)), "DFs": {2, 4, 7, 12} if tier == "quick" else {2, 3, 4, 7, 9, 12, 40},
              "Patterns": core.Raw(pats), "Methods": {"EFDD", "FSDD"}}
    mod, cfg = core.make_model(scratch, "BellSupport", "bellsupport", consts,
                               invariants=["ZeroOutsideBand", "OnlyDominantLines", "BandIsAnInterval", "WholeBandWhenAllDominant"],
                               action_constraints=["Emit"], view="View")
    r = core.run_tlc(mod, cfg, scratch=scratch, raw=True)
    if len(r.transitions) != r.generated - r.initial:
        raise core.MachineryFailure("emitted transition count differs from TLC's")
    chunks = list(core.chunks(r.transitions, max(1, len(r.transitions) // 64)))
    with mp.get_context("fork").Pool(16) as pool:
        res = pool.map(_chunk, chunks)
    dev = [d for dd, _ in res for d in dd]
    n = sum(k for _, k in res)
    out = {"module": "BellSupport.tla", "tier": tier, "tlc": {"distinct_states": r.distinct, "states_generated": r.generated},
           "cases_replayed": n, "deviations": len(dev), "deviation_samples": dev[:10]}
    os.makedirs("/verif/extras", exist_ok=True)
    with open("/verif/extras/bell.json", "w") as f:
        json.dump(out, f, indent=1, default=str)
    for d in dev[:10]:
        print("EXTRA-DEVIATION module=BellSupport " + json.dumps(d, default=str)[:500])
    shutil.rmtree(scratch, ignore_errors=True)
    print(f"extra bell tier={tier} states={r.distinct} cases_replayed={n} deviations={len(dev)}")
    return 0
