# -*- coding: utf-8 -*-
"""
Conformance direction B: record real executions of setup objects as event traces.

The library is sequential, so the linearisation point of an action is the return (or raise) of the
public call.  No hook inside /repo is needed: the public methods of SingleSetup / MultiSetup_PreGER (and
gen.save_to_file / load_from_file) are wrapped *from the outside*, only while a Recorder is installed.
Each outermost call logs one event (or one per added algorithm) with the call's arguments, whether it
raised, and the projected state: sampling attributes as exact fractions, sample counts, array lengths,
the registry with run / mpe flags, and two booleans computed with scipy only - "the data equal the
scipy interpretation of the operations logged so far" and "the caller's arrays and the stored initial
copy are untouched".
"""
from __future__ import annotations

import functools
from fractions import Fraction

import numpy as np
from scipy import signal


def frac(x, what=""):
    """exact small rational of a float, or None when the float is not (within 1e-12) a small rational"""
    f = Fraction(float(x)).limit_denominator(10**6)
    if abs(float(f) - float(x)) > 1e-12 * max(abs(float(x)), 1e-300):
        return None
    return [f.numerator, f.denominator]


class ObjTrace:
    def __init__(self, kind, obj, datasets, fs, ref_ind):
        self.kind = kind
        self.obj = obj            # keep the object alive: traces are keyed by id()
        self.fs0 = fs
        self.user = datasets                               # the caller's own arrays
        self.orig = [np.array(d, copy=True) for d in datasets]
        self.ref_ind = [list(r) for r in ref_ind] if ref_ind is not None else None
        self.ops = []                                      # operations since construction / rollback, with real kwargs
        self.events = []
        self.n0 = [int(d.shape[0]) for d in datasets]
        self.filters = []                                  # (Wn max, admissible) per filter event
        self.classes = {}

    # ---- scipy interpretation of the logged operations
    def interp(self):
        out = []
        for x in self.orig:
            y, fs = x, float(self.fs0)
            for name, kw in self.ops:
                if name == "dec":
                    kw = dict(kw)
                    q = kw.pop("q")
                    kw.pop("axis", None)
                    y = signal.decimate(y, q, axis=0, **kw)
                    fs = fs / q
                elif name == "det":
                    kw = dict(kw)
                    kw.pop("axis", None)
                    y = signal.detrend(y, axis=0, **kw)
                elif name == "fil":
                    sos = signal.butter(kw.get("order", 8), kw["Wn"], btype=kw.get("btype", "lowpass"), output="sos", fs=fs)
                    y = signal.sosfiltfilt(sos, y, axis=0)
            out.append(y)
        return out

    def data_ok(self, obj):
        try:
            exp = self.interp()
            if self.kind == "single":
                got = np.asarray(obj.data)
                return bool(got.shape == exp[0].shape and np.allclose(got, exp[0], rtol=1e-9, atol=1e-12))
            for d, e, r in zip(obj.data, exp, self.ref_ind):
                mov = [c for c in range(e.shape[1]) if c not in set(r)]
                if not (np.allclose(d["ref"], e[:, r].T, rtol=1e-9, atol=1e-12) and np.allclose(d["mov"], e[:, mov].T, rtol=1e-9, atol=1e-12)):
                    return False
            return True
        except Exception:
            return False

    def user_ok(self, obj):
        ok = all(np.array_equal(u, o) for u, o in zip(self.user, self.orig))
        try:
            if self.kind == "single":
                ok = ok and np.array_equal(obj._initial_data, self.orig[0])
            else:
                ok = ok and all(np.array_equal(a, o) for a, o in zip(obj._initial_datasets, self.orig))
        except Exception:
            ok = False
        return bool(ok)

    def registry(self, obj):
        out = []
        for name, a in getattr(obj, "algorithms", {}).items():
            res = getattr(a, "result", None)
            out.append({"name": name, "ran": res is not None, "mpe": bool(res is not None and getattr(res, "Fn", None) is not None)})
        return out

    def state(self, obj):
        if self.kind == "single":
            ndat, T, ln = [obj.Ndat], [obj.T], [int(np.asarray(obj.data).shape[0])]
        else:
            ndat, T, ln = list(obj.Ndats), list(obj.Ts), [int(d["ref"].shape[1]) for d in obj.data]
        return {"fs": frac(obj.fs), "dt": frac(obj.dt), "ndat": [int(n) for n in ndat], "len": ln, "T": [frac(t) for t in T],
                "reg": self.registry(obj), "data_ok": self.data_ok(obj), "user_ok": self.user_ok(obj),
                "raw": {"fs": float(obj.fs), "dt": float(obj.dt), "T": [float(t) for t in T]}}

    def cls_id(self, alg):
        n = type(alg).__name__
        return self.classes.setdefault(n, len(self.classes) + 1)


class Recorder:
    """install() wraps the public API; uninstall() restores it; .traces holds one ObjTrace per setup object."""

    def __init__(self):
        self.traces = {}
        self.depth = 0
        self._saved = []
        self._by_file = {}

    # ---- helpers
    def _wrap(self, cls, name, make_events):
        orig = getattr(cls, name)
        rec = self

        @functools.wraps(orig)
        def wrapper(obj, *a, **k):
            tr = rec.traces.get(id(obj))
            outer = rec.depth == 0
            pre_reg = tr.registry(obj) if (tr is not None and outer) else None
            rec.depth += 1
            raised = False
            try:
                return orig(obj, *a, **k)
            except Exception:
                raised = True
                raise
            finally:
                rec.depth -= 1
                if outer and tr is not None:
                    try:
                        make_events(tr, obj, a, k, raised, pre_reg)
                    except Exception as e:      # a recorder failure must never change the behaviour under test
                        tr.events.append({"ev": "RecorderError", "what": repr(e)})

        self._saved.append((cls, name, orig))
        setattr(cls, name, wrapper)

    def install(self):
        from pyoma2.functions import gen
        from pyoma2.setup import MultiSetup_PreGER, SingleSetup

        rec = self
        # constructors: register the object once it is built
        for cls, kind in ((SingleSetup, "single"), (MultiSetup_PreGER, "preger")):
            orig = cls.__init__

            def init(obj, *a, __orig=orig, __kind=kind, **k):
                rec.depth += 1
                try:
                    __orig(obj, *a, **k)
                finally:
                    rec.depth -= 1
                if rec.depth == 0:
                    if __kind == "single":
                        data = k.get("data", a[0] if a else None)
                        fs = k.get("fs", a[1] if len(a) > 1 else None)
                        rec.traces[id(obj)] = ObjTrace("single", obj, [data], fs, None)
                    else:
                        fs = k.get("fs", a[0] if a else None)
                        ref = k.get("ref_ind", a[1] if len(a) > 1 else None)
                        ds = k.get("datasets", a[2] if len(a) > 2 else None)
                        rec.traces[id(obj)] = ObjTrace("preger", obj, list(ds), fs, ref)

            self._saved.append((cls, "__init__", orig))
            cls.__init__ = init

            def ev_dec(tr, obj, a, k, raised, pre):
                q = k.get("q", a[0] if a else None)
                kw = {kk: v for kk, v in k.items() if kk != "q"}
                if not raised:
                    tr.ops.append(("dec", dict(kw, q=int(q))))
                tr.events.append(dict(ev="Decimate", q=int(q), raised=raised, **tr.state(obj)))

            def ev_det(tr, obj, a, k, raised, pre):
                if not raised:
                    tr.ops.append(("det", dict(k)))
                tr.events.append(dict(ev="Detrend", raised=raised, **tr.state(obj)))

            def ev_fil(tr, obj, a, k, raised, pre):
                names = ["Wn", "order", "btype"]
                kw = dict(zip(names, a))
                kw.update(k)
                wmax = float(np.max(np.atleast_1d(kw["Wn"])))
                qprod = 1
                for nm, o in tr.ops:
                    if nm == "dec":
                        qprod *= o["q"]
                admissible = Fraction(2) * Fraction(wmax) * qprod < Fraction(float(tr.fs0))
                tr.filters.append(bool(admissible))
                if not raised:
                    tr.ops.append(("fil", kw))
                tr.events.append(dict(ev="Filter", f=len(tr.filters), raised=raised, **tr.state(obj)))

            def ev_rb(tr, obj, a, k, raised, pre):
                if not raised:
                    tr.ops = []
                tr.events.append(dict(ev="Rollback", raised=raised, **tr.state(obj)))

            def ev_add(tr, obj, a, k, raised, pre):
                st = tr.state(obj)
                final = st["reg"]
                old = {e["name"]: e for e in pre}
                new = [x.name for x in a]
                for i, alg in enumerate(a):
                    later = set(new[i + 1:])
                    keep = []
                    for e in final:
                        if e["name"] in later and e["name"] not in new[:i + 1]:
                            if e["name"] in old:
                                keep.append(old[e["name"]])       # not yet replaced
                            continue
                        keep.append(e)
                    tr.events.append(dict(ev="Add", alg=alg.name, cls=tr.cls_id(alg), par=getattr(alg, "run_params", None) is not None,
                                          raised=raised, **dict(st, reg=keep)))

            def ev_run(tr, obj, a, k, raised, pre):
                tr.events.append(dict(ev="RunByName", alg=k.get("name", a[0] if a else None), raised=raised, **tr.state(obj)))

            def ev_runall(tr, obj, a, k, raised, pre):
                tr.events.append(dict(ev="RunAll", raised=raised, **tr.state(obj)))

            def ev_mpe(tr, obj, a, k, raised, pre):
                tr.events.append(dict(ev="Mpe", alg=k.get("name", a[0] if a else None), raised=raised, **tr.state(obj)))

            for name, fn in (("decimate_data", ev_dec), ("detrend_data", ev_det), ("filter_data", ev_fil), ("rollback", ev_rb),
                             ("add_algorithms", ev_add), ("run_by_name", ev_run), ("run_all", ev_runall), ("mpe", ev_mpe)):
                self._wrap(cls, name, fn)

        # pickle round trip: the loaded object continues the trace of the saved one
        osave, oload = gen.save_to_file, gen.load_from_file

        def save(setup, file_name):
            rec._by_file[str(file_name)] = id(setup)
            return osave(setup, file_name)

        def load(file_name):
            rec.depth += 1
            try:
                obj = oload(file_name)
            finally:
                rec.depth -= 1
            src = rec._by_file.get(str(file_name))
            tr = rec.traces.get(src)
            if tr is not None:
                rec.traces[id(obj)] = tr
                tr.user = tr.user                     # the loaded object no longer references the caller's arrays
                tr.events.append(dict(ev="SaveLoad", raised=False, **tr.state(obj)))
            return obj

        self._saved.append((gen, "save_to_file", osave))
        self._saved.append((gen, "load_from_file", oload))
        gen.save_to_file, gen.load_from_file = save, load
        return self

    def uninstall(self):
        for owner, name, orig in reversed(self._saved):
            setattr(owner, name, orig)
        self._saved = []

    def unique_traces(self):
        seen, out = set(), []
        for tr in self.traces.values():
            if id(tr) not in seen and tr.events:
                seen.add(id(tr))
                out.append(tr)
        return out


    def dump(self):
        return [t.to_json() for t in self.unique_traces()]


def _to_json(self):
    return {"kind": self.kind, "fs0": float(self.fs0), "n0": self.n0, "ref_ind": self.ref_ind, "filters": self.filters,
            "classes": self.classes, "events": self.events}


ObjTrace.to_json = _to_json
