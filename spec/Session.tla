------------------------------ MODULE Session ------------------------------
(***************************************************************************)
(* An analysis session on a SingleSetup: the part of the public API that   *)
(* Setup.tla does not model - look-ups, geometry definition, the observers *)
(* (plots) of the setup and of its algorithms, mode-shape plots, the       *)
(* interactive extraction - as one state machine over                      *)
(*    reg  : the registry (insertion order), each entry added / ran / mpe  *)
(*    geo  : which of the two geometries is defined                        *)
(*    out  : outcome of the last call ("ok" or the exception class)        *)
(* No listed property quantifies over these calls; the module extends the  *)
(* behaviour coverage of the specification ("only after" rules of the API) *)
(* and is bound to the code by a graph walk whose deviations are reported  *)
(* as observations, never as violations (harness/extras/session.py).       *)
(*                                                                         *)
(* The model follows the code, including two deviations from the           *)
(* documented "raises ValueError": plotting a mode shape of an algorithm   *)
(* that was added but never run, and pLSCF.plot_stab before the run, end   *)
(* in AttributeError (they dereference the missing result object).         *)
(***************************************************************************)
EXTENDS Naturals, Sequences, FiniteSets, TLC, Json

CONSTANTS
    Algs,        \* set of [name, kind] algorithm instances that may be added; kind in {"FDD", "SSI", "PLS"}
    Names,       \* names used in look-ups and calls (may include names never added)
    PickCounts,  \* numbers of poles / lines picked in the interactive dialog (positive)
    MaxLen

VARIABLES reg, geo, out, len, act
vars == <<reg, geo, out, len, act>>
View == <<reg, geo, len>>

Index(n) == IF \E i \in DOMAIN reg : reg[i].name = n THEN CHOOSE i \in DOMAIN reg : reg[i].name = n ELSE 0
Step == len < MaxLen /\ len' = len + 1

Init == reg = <<>> /\ geo = [g1 |-> FALSE, g2 |-> FALSE] /\ out = "ok" /\ len = 0 /\ act = [name |-> "Init"]

(* ---- calls that change the state ---------------------------------------- *)
Add(a) ==
    /\ Step
    /\ LET i == Index(a.name)
           e == [name |-> a.name, kind |-> a.kind, st |-> "added"]
       IN reg' = IF i = 0 THEN Append(reg, e) ELSE [reg EXCEPT ![i] = e]
    /\ out' = "ok" /\ UNCHANGED geo
    /\ act' = [name |-> "Add", alg |-> a.name, kind |-> a.kind]

Run(n) ==
    /\ Step
    /\ LET i == Index(n)
       IN IF i = 0 THEN reg' = reg /\ out' = "KeyError"
                   ELSE reg' = [reg EXCEPT ![i].st = "ran"] /\ out' = "ok"      \* a new run discards extracted modes
    /\ UNCHANGED geo
    /\ act' = [name |-> "Run", alg |-> n]

RunAll ==
    /\ Step
    /\ reg' = [i \in DOMAIN reg |-> [reg[i] EXCEPT !.st = "ran"]]
    /\ out' = "ok" /\ UNCHANGED geo
    /\ act' = [name |-> "RunAll"]

Mpe(n) ==
    /\ Step
    /\ LET i == Index(n)
       IN IF i = 0 THEN reg' = reg /\ out' = "KeyError"
          ELSE IF reg[i].st = "added" THEN reg' = reg /\ out' = "ValueError"
          ELSE reg' = [reg EXCEPT ![i].st = "mpe"] /\ out' = "ok"
    /\ UNCHANGED geo
    /\ act' = [name |-> "Mpe", alg |-> n]

(* interactive extraction: the dialog needs the result of a run *)
MpeFromPlot(n, k) ==
    /\ Step
    /\ LET i == Index(n)
       IN IF i = 0 THEN reg' = reg /\ out' = "KeyError"
          ELSE IF reg[i].st = "added" THEN reg' = reg /\ out' = "ValueError"
          ELSE reg' = [reg EXCEPT ![i].st = "mpe"] /\ out' = "ok"
    /\ UNCHANGED geo
    /\ act' = [name |-> "MpeFromPlot", alg |-> n, picks |-> k]

DefGeo(k) ==
    /\ Step
    /\ geo' = IF k = 1 THEN [geo EXCEPT !.g1 = TRUE] ELSE [geo EXCEPT !.g2 = TRUE]
    /\ out' = "ok" /\ UNCHANGED reg
    /\ act' = [name |-> "DefGeo", k |-> k]

(* rollback re-initialises the object: the registry is emptied, the geometries stay *)
Rollback ==
    /\ Step
    /\ reg' = <<>> /\ out' = "ok" /\ UNCHANGED geo
    /\ act' = [name |-> "Rollback"]

SaveLoad ==
    /\ Step
    /\ out' = "ok" /\ UNCHANGED <<reg, geo>>
    /\ act' = [name |-> "SaveLoad"]

(* ---- observers: never change the state ----------------------------------- *)
Defined(k) == IF k = 1 THEN geo.g1 ELSE geo.g2

GetItem(n) ==
    /\ Step /\ UNCHANGED <<reg, geo>>
    /\ out' = IF Index(n) = 0 THEN "KeyError" ELSE "ok"
    /\ act' = [name |-> "GetItem", alg |-> n]

Get(n) ==
    /\ Step /\ UNCHANGED <<reg, geo>>
    /\ out' = "ok"                                      \* returns None for an unknown name
    /\ act' = [name |-> "Get", alg |-> n, found |-> Index(n) # 0]

PlotSetup(what) ==                                      \* plot_data, plot_ch_info, plot_STFT
    /\ Step /\ UNCHANGED <<reg, geo>>
    /\ out' = "ok"
    /\ act' = [name |-> "PlotSetup", what |-> what]

PlotGeo(k) ==
    /\ Step /\ UNCHANGED <<reg, geo>>
    /\ out' = IF Defined(k) THEN "ok" ELSE "ValueError"
    /\ act' = [name |-> "PlotGeo", k |-> k]

(* setup.plot_mode_geoK(setup[n].result, mode 1) *)
PlotMode(k, n) ==
    /\ Step /\ UNCHANGED <<reg, geo>>
    /\ LET i == Index(n)
       IN out' = IF i = 0 THEN "KeyError"
                 ELSE IF ~Defined(k) THEN "ValueError"
                 ELSE IF reg[i].st = "added" THEN "AttributeError"      \* deviation NoResultObject
                 ELSE IF reg[i].st = "ran" THEN "ValueError"
                 ELSE "ok"
    /\ act' = [name |-> "PlotMode", k |-> k, alg |-> n]

(* the algorithm's own diagram: plot_CMIF (FDD), plot_stab (SSI, pLSCF) *)
AlgPlot(n) ==
    /\ Step /\ UNCHANGED <<reg, geo>>
    /\ LET i == Index(n)
       IN out' = IF i = 0 THEN "KeyError"
                 ELSE IF reg[i].st = "added" THEN (IF reg[i].kind = "PLS" THEN "AttributeError" ELSE "ValueError")   \* deviation
                 ELSE "ok"
    /\ act' = [name |-> "AlgPlot", alg |-> n]

Next ==
    \/ \E a \in Algs : Add(a)
    \/ \E n \in Names : Run(n) \/ Mpe(n) \/ GetItem(n) \/ Get(n) \/ AlgPlot(n)
    \/ \E n \in Names, k \in PickCounts : MpeFromPlot(n, k)
    \/ \E n \in Names, k \in {1, 2} : PlotMode(k, n)
    \/ \E k \in {1, 2} : DefGeo(k) \/ PlotGeo(k)
    \/ \E w \in {"data", "ch_info"} : PlotSetup(w)
    \/ RunAll \/ Rollback \/ SaveLoad

Spec == Init /\ [][Next]_vars

(* ---- properties of the design -------------------------------------------- *)
Observers == {"GetItem", "Get", "PlotSetup", "PlotGeo", "PlotMode", "AlgPlot"}
ObserversArePure == [][act'.name \in Observers => UNCHANGED <<reg, geo>>]_vars
RejectedCallsChangeNothing == [][out' # "ok" => UNCHANGED <<reg, geo>>]_vars
ModeShapeOnlyAfterExtraction ==
    [][(act'.name = "PlotMode" /\ out' = "ok") =>
          /\ (IF act'.k = 1 THEN geo.g1 ELSE geo.g2)
          /\ \E i \in DOMAIN reg : reg[i].name = act'.alg /\ reg[i].st = "mpe"]_vars
ExtractionOnlyAfterRun ==
    [][(act'.name \in {"Mpe", "MpeFromPlot"} /\ out' = "ok") =>
          \E i \in DOMAIN reg : reg[i].name = act'.alg /\ reg[i].st \in {"ran", "mpe"}]_vars
GeometryIsMonotone == [][(geo.g1 => geo'.g1) /\ (geo.g2 => geo'.g2)]_vars
UniqueNames == \A i, j \in DOMAIN reg : reg[i].name = reg[j].name => i = j
TypeOK == /\ \A i \in DOMAIN reg : reg[i].st \in {"added", "ran", "mpe"}
          /\ out \in {"ok", "KeyError", "ValueError", "AttributeError"}

St(r, g, l) == [reg |-> r, geo |-> g, len |-> l]
Emit == PrintT(<<"TR", ToJson([pre |-> St(reg, geo, len), act |-> act', out |-> out', post |-> St(reg', geo', len')])>>)
=============================================================================
