------------------------------- MODULE Hankel -------------------------------
(***************************************************************************)
(* Block, channel and lag layout of the SSI Hankel / Toeplitz matrices     *)
(* (C12) and the construction of the Hankel covariance factor (C17,        *)
(* second sentence).                                                       *)
(*                                                                         *)
(* Indices are 0-based as in the code.  For l channels, reference list     *)
(* ref (ordered), br block rows parameter and Ndat samples:                *)
(*    q = br + 1,  N = Ndat - 2 br - 1                                     *)
(* The matrix has (br+1) block rows of all channels and (br+1) block       *)
(* columns of the reference channels; entry (i, a ; j, b) pairs channel a  *)
(* with reference b.                                                       *)
(***************************************************************************)
EXTENDS Integers, Sequences, FiniteSets, TLC, Json

CONSTANTS Configs    \* set of [l, ref, br, ndat, method, nb]; method in {"cov_mm", "cov_R", "dat"}; nb = 0: no factor

VARIABLES cfg, out, act
vars == <<cfg, out, act>>
View == <<cfg, out>>

Q(c) == c.br + 1
NN(c) == c.ndat - 2 * c.br - 1
BlockIdx(c) == 0..c.br

(* ---- moment-matrix method (also the row spaces of the data-driven method) ---- *)
(* sample indices of block row i ("future") and block column j ("past"), t = 0..Cnt-1 *)
Cnt(c) == NN(c) - 1
FutStart(c, i) == Q(c) + 1 + i
PastStart(c, j) == Q(c) - j
Fut(c, i) == [t \in 0..(Cnt(c) - 1) |-> FutStart(c, i) + t]
Past(c, j) == [t \in 0..(Cnt(c) - 1) |-> PastStart(c, j) + t]
LagMM(i, j) == i + j + 1            \* data sample index minus reference sample index

(* ---- correlation (Toeplitz) method ---- *)
(* R[k][a][b] = 1/(Ndat-k) sum_t Y[a][t] Yref[b][t+k];  block (i, j) = R[br + i - j] *)
LagR(c, i, j) == c.br + i - j        \* reference sample index minus data sample index
CntR(c, k) == c.ndat - k

(* ---- covariance factor ---- *)
Nb(c) == NN(c) \div c.nb
BlockCols(c, k) == (k * Nb(c))..((k + 1) * Nb(c) - 1)     \* columns t of the future/past matrices in block k
Rows(c) == (c.br + 1) * c.l
ColsH(c) == (c.br + 1) * Len(c.ref)
(* column stacking: entry (R, C) of the matrix sits at position C * Rows + R of the vector *)
VecCol(c, R, C) == C * Rows(c) + R

Init == cfg \in Configs /\ out = <<>> /\ act = [name |-> "Init"]

Build ==
    /\ out = <<>>
    /\ out' = [rows |-> Rows(cfg), cols |-> ColsH(cfg), N |-> NN(cfg),
               lag |-> [i \in BlockIdx(cfg) |-> [j \in BlockIdx(cfg) |->
                          IF cfg.method = "cov_R" THEN LagR(cfg, i, j) ELSE LagMM(i, j)]],
               cnt |-> [i \in BlockIdx(cfg) |-> [j \in BlockIdx(cfg) |->
                          IF cfg.method = "cov_R" THEN CntR(cfg, LagR(cfg, i, j)) ELSE Cnt(cfg)]],
               futstart |-> [i \in BlockIdx(cfg) |-> FutStart(cfg, i)],
               paststart |-> [j \in BlockIdx(cfg) |-> PastStart(cfg, j)],
               nbcols |-> IF cfg.nb = 0 THEN 0 ELSE Nb(cfg)]
    /\ UNCHANGED cfg
    /\ act' = [name |-> "Build"]

Next == Build
Spec == Init /\ [][Next]_vars

-----------------------------------------------------------------------------
IsMM == cfg.method \in {"cov_mm", "dat"}
(* one single lag per entry, the same for every averaged product *)
SingleLag == IsMM =>
    \A i, j \in BlockIdx(cfg) : \A t \in 0..(Cnt(cfg) - 1) : Fut(cfg, i)[t] - Past(cfg, j)[t] = LagMM(i, j)
(* every sample index used lies inside the record *)
InRange == IsMM =>
    \A i \in BlockIdx(cfg) : \A t \in 0..(Cnt(cfg) - 1) :
        /\ Fut(cfg, i)[t] >= 0 /\ Fut(cfg, i)[t] <= cfg.ndat - 1
        /\ Past(cfg, i)[t] >= 0 /\ Past(cfg, i)[t] <= cfg.ndat - 1
ToeplitzInRange == cfg.method = "cov_R" =>
    \A i, j \in BlockIdx(cfg) : LagR(cfg, i, j) >= 0 /\ LagR(cfg, i, j) <= 2 * cfg.br /\ CntR(cfg, LagR(cfg, i, j)) >= 1
(* lags of the two covariance methods agree up to the sign convention and a reflection of the block columns *)
ToeplitzIsReflectedHankel ==
    \A i, j \in BlockIdx(cfg) : LagR(cfg, i, cfg.br - j) + 1 = LagMM(i, j)
Shape == out # <<>> => out.rows = (cfg.br + 1) * cfg.l /\ out.cols = (cfg.br + 1) * Len(cfg.ref)
(* the blocks of the factor partition the first nb * Nb columns into nb runs of equal length *)
BlocksPartition == cfg.nb > 0 =>
    /\ Nb(cfg) >= 1
    /\ \A k, m \in 0..(cfg.nb - 1) : k # m => BlockCols(cfg, k) \cap BlockCols(cfg, m) = {}
    /\ \A k \in 0..(cfg.nb - 1) : BlockCols(cfg, k) \subseteq 0..(NN(cfg) - 1)
(* column stacking is a bijection between matrix entries and vector positions *)
VecBijective ==
    \A R1, R2 \in 0..(Rows(cfg) - 1) : \A C1, C2 \in 0..(ColsH(cfg) - 1) :
        VecCol(cfg, R1, C1) = VecCol(cfg, R2, C2) => (R1 = R2 /\ C1 = C2)

Emit == PrintT(<<"TR", ToJson([cfg |-> cfg, out |-> out'])>>)
=============================================================================
