--------------------------------- MODULE Geo --------------------------------
(***************************************************************************)
(* Geometry tables (C19): validation decision table, re-indexing to the    *)
(* order of the sensor names, one-based -> zero-based indices, and the     *)
(* mapping of a mode shape to points with constraints and signs.           *)
(*                                                                         *)
(* Sensors are ids 1..n (the harness names them and gives sensor k the     *)
(* coordinate (10 k, k, -k) and the mode-shape component k + 1).  A table  *)
(* set is described by what is in its sheets, not by cell values:          *)
(*   form     how the sensor names are given ("row", "list", "array";      *)
(*            multi-setup: "lol" = list of lists, "table" = one row per    *)
(*            setup) - multi-setup names are flattened with Layout         *)
(*   rowperm  sensor id found in row r of the coordinate table             *)
(*   fault    the single corruption applied ("none" or one of Faults)      *)
(*   opt      which optional sheets are present                            *)
(* geo2 adds the mapping table (cells: <<"s", i>> sensor, <<"c", j>>       *)
(* constraint, <<"z">> zero, <<"n">> NaN), the constraint matrix and the   *)
(* sign table.                                                             *)
(***************************************************************************)
EXTENDS Layout, TLC, Json

CONSTANTS
    Kind,        \* "geo1" | "geo2"
    TableSets,   \* set of table-set records (enumerated by the MC module)
    Faults1, Faults2

VARIABLES ts, out, act
vars == <<ts, out, act>>
View == <<ts, out>>

SensorsOf(t) == 1..t.n

(* ---- flattened names: single setup = 1..n in the given order; multi setup = REF1..REFk then roving *)
(* a name is <<"s", id>> (sensor id) or <<"ref", j>> (j-th reference) *)
FlatNames(t) ==
    IF t.form \in {"lol", "table"}
    THEN [j \in 1..Len(t.lays[1].ref) |-> <<"ref", j>>]
         \o Concat([i \in DOMAIN t.lays |-> [q \in DOMAIN MovSensors(t.lays[i]) |-> <<"s", MovSensors(t.lays[i])[q]>>]])
    ELSE [k \in 1..t.n |-> <<"s", t.order[k]>>]

(* ---- geo1 ---------------------------------------------------------------- *)
Malformed1(t) == t.fault # "none"          \* every listed fault makes the table set malformed; optional sheets never do
Geometry1(t) ==
    [names |-> FlatNames(t),
     row_sensor |-> FlatNames(t),           \* row k of the re-ordered coordinate / direction table is the sensor named k
     lines0 |-> [i \in DOMAIN t.lines |-> <<t.lines[i][1] - 1, t.lines[i][2] - 1>>],
     has |-> t.opt]

(* ---- geo2 ---------------------------------------------------------------- *)
Cells(t) == {t.map[p][d] : p \in DOMAIN t.map, d \in 1..3}
SensorNamed(t, i) == <<"s", i>> \in Cells(t)
ConstraintUsed(t, j) == <<"c", j>> \in Cells(t)
Malformed2(t) ==
    \/ t.fault # "none"
    \/ \E i \in SensorsOf(t) : ~SensorNamed(t, i)                       \* a sensor name absent from the mapping
    \/ \E j \in DOMAIN t.cstr : ~ConstraintUsed(t, j)                   \* a constraint the mapping never uses
(* value a mode shape phi takes at a cell *)
CellValue(t, cell, phi) ==
    IF cell[1] = "s" THEN phi[cell[2]]
    ELSE IF cell[1] = "c" THEN LET row == t.cstr[cell[2]]
                                   S[i \in 0..t.n] == IF i = 0 THEN 0 ELSE S[i - 1] + row[i] * phi[i]
                               IN S[t.n]
    ELSE 0
Phi(t) == [i \in 1..t.n |-> i + 1]
(* the sign sheet is optional: every sign is +1 when it is omitted *)
SignAt(t, p, d) == IF "sensors sign" \in t.opt THEN t.sign[p][d] ELSE 1
Geometry2(t) ==
    [names |-> FlatNames(t),
     mapped |-> [p \in DOMAIN t.map |-> [d \in 1..3 |-> CellValue(t, t.map[p][d], Phi(t))]],
     shown  |-> [p \in DOMAIN t.map |-> [d \in 1..3 |-> CellValue(t, t.map[p][d], Phi(t)) * SignAt(t, p, d)]],
     lines0 |-> [i \in DOMAIN t.lines |-> <<t.lines[i][1] - 1, t.lines[i][2] - 1>>],
     has |-> t.opt]

Init == ts \in TableSets /\ out = <<>> /\ act = [name |-> "Init"]

Define ==
    /\ out = <<>>
    /\ out' = IF Kind = "geo1"
              THEN (IF Malformed1(ts) THEN [outcome |-> "ValueError"] ELSE [outcome |-> "Geometry", geo |-> Geometry1(ts)])
              ELSE (IF Malformed2(ts) THEN [outcome |-> "ValueError"] ELSE [outcome |-> "Geometry", geo |-> Geometry2(ts)])
    /\ UNCHANGED ts
    /\ act' = [name |-> "Define"]

Next == Define
Spec == Init /\ [][Next]_vars

Done == out # <<>>
RejectIffMalformed == Done =>
    (out.outcome = "ValueError") = (IF Kind = "geo1" THEN Malformed1(ts) ELSE Malformed2(ts))
OptionalSheetsOptional == (Done /\ ts.fault = "none" /\ Kind = "geo1") => out.outcome = "Geometry"
ZeroBased == (Done /\ out.outcome = "Geometry") =>
    \A i \in DOMAIN out.geo.lines0 : out.geo.lines0[i][1] >= 0 /\ out.geo.lines0[i][2] >= 0
RowKIsSensorK == (Done /\ out.outcome = "Geometry") => Len(out.geo.names) = ts.n
ZeroWhereNothingNamed == (Done /\ out.outcome = "Geometry" /\ Kind = "geo2") =>
    \A p \in DOMAIN ts.map, d \in 1..3 : ts.map[p][d][1] \in {"z", "n"} => out.geo.mapped[p][d] = 0

Emit == PrintT(<<"TR", ToJson([ts |-> ts, out |-> out'])>>)
=============================================================================
