----------------------------- MODULE PoserMerge -----------------------------
(***************************************************************************)
(* PoSER merging (C02): order and scale of the merged mode shapes and the  *)
(* statistics of the merged frequencies / dampings.                        *)
(*                                                                         *)
(* The global shape G[s][k] of sensor s, mode k is a fixed catalogue in    *)
(* the harness; setup i reports a[i][k] * G restricted to its sensors.     *)
(* The specification predicts *which* sensor every merged row is and       *)
(* *which* factor scales it, plus exact rational statistics.               *)
(***************************************************************************)
EXTENDS Layout, TLC, Json

CONSTANTS
    NRef,        \* number of reference sensors (ids 1..NRef)
    RovCounts,   \* set of sequences: roving sensor count per setup, e.g. {<<1, 2>>, <<0, 1, 2>>}
    ScalePats,   \* set of scale-pattern ids (meaning in harness/tables.py)
    NModes,      \* set of mode counts
    FreqSets     \* set of sequences of per-setup frequencies (integer ticks) for the statistics clause

VARIABLES lays, pat, nm, fr, out, act
vars == <<lays, pat, nm, fr, out, act>>
View == <<lays, pat, nm, fr, out>>

AllLays(cnt) == AllLayouts(NRef, cnt)

Init ==
    /\ \E cnt \in RovCounts : lays \in AllLays(cnt)
    /\ pat \in ScalePats
    /\ nm \in NModes
    /\ fr \in FreqSets
    /\ out = <<>>
    /\ act = [name |-> "Init"]

(* exact statistics: mean = sum / n;  (population std / mean)^2 = (n * sumsq - sum^2) / sum^2 *)
Sum(s) == LET F[i \in 0..Len(s)] == IF i = 0 THEN 0 ELSE F[i - 1] + s[i] IN F[Len(s)]
SumSq(s) == LET F[i \in 0..Len(s)] == IF i = 0 THEN 0 ELSE F[i - 1] + s[i] * s[i] IN F[Len(s)]

Merge ==
    /\ out = <<>>
    /\ out' = [order |-> GlobalOrder(lays),            \* sensor id of every merged row
               scale_of_setup |-> 1,                   \* every row carries the first setup's factor
               mean |-> <<Sum(fr), Len(fr)>>,
               disp2 |-> <<Len(fr) * SumSq(fr) - Sum(fr) * Sum(fr), Sum(fr) * Sum(fr)>>]
    /\ UNCHANGED <<lays, pat, nm, fr>>
    /\ act' = [name |-> "Merge"]

Next == Merge
Spec == Init /\ [][Next]_vars

(* properties of the predicted order *)
Merged == out # <<>>
EverySensorOnce == Merged =>
    /\ \A a, b \in DOMAIN out.order : a # b => out.order[a] # out.order[b]
    /\ Range(out.order) = UNION {Range(lays[i].chan) : i \in DOMAIN lays}
RefsFirst == Merged => \A j \in 1..NRef : out.order[j] = j
SetupOf(s) == CHOOSE i \in DOMAIN lays : s \in Range(lays[i].chan)
PosIn(i, s) == CHOOSE c \in DOMAIN lays[i].chan : lays[i].chan[c] = s
RovingInSetupOrder == Merged =>
    \A a, b \in (NRef + 1)..Len(out.order) : a < b =>
        LET sa == out.order[a]  sb == out.order[b]
        IN \/ SetupOf(sa) < SetupOf(sb)
           \/ SetupOf(sa) = SetupOf(sb) /\ PosIn(SetupOf(sa), sa) < PosIn(SetupOf(sb), sb)
LayoutsWellFormed == WellFormed(lays)
DispersionNonNegative == Merged => out.disp2[1] >= 0

Emit == PrintT(<<"TR", ToJson([lays |-> lays, pat |-> pat, nm |-> nm, fr |-> fr, out |-> out'])>>)
=============================================================================
