------------------------------ MODULE PickMenu ------------------------------
(***************************************************************************)
(* The stabilisation-diagram dialog with its menu: Pick.tla extended by    *)
(* the two view switches of the SSI / pLSCF variants - "show / hide        *)
(* unstable poles" and the legend, which the menu always sets together -   *)
(* as calls that redraw the diagram.  They change what is drawn, never     *)
(* what is selected: the selection, its pairing with the model orders, the *)
(* modifier state and the selection marker survive every redraw.           *)
(* Extra behaviour coverage (C16 quantifies over pick / deselect actions   *)
(* only); replayed by harness/extras/pickmenu.py, deviations are           *)
(* observations.                                                           *)
(***************************************************************************)
EXTENDS Pick

VARIABLES hide, legend
mvars == <<vars, hide, legend>>
MView == <<View, hide, legend>>

MInit == Init /\ hide = TRUE /\ legend = FALSE          \* the dialog opens with unstable poles hidden, no legend

ToggleHide(x) ==
    /\ Step
    /\ hide' = x
    /\ UNCHANGED <<sel, shift, legend>>
    /\ act' = [name |-> "ToggleHide", x |-> x]

ToggleLegend(x) ==
    /\ Step
    /\ legend' = x
    /\ UNCHANGED <<sel, shift, hide>>
    /\ act' = [name |-> "ToggleLegend", x |-> x]

(* the menu entries: "Show unstable poles" = hide off + legend on, "Hide unstable poles" = hide on + legend off *)
MNext == \/ (Next /\ UNCHANGED <<hide, legend>>)
         \/ (\E x \in BOOLEAN : ToggleHide(x))
         \/ (\E x \in BOOLEAN : ToggleLegend(x))
MSpec == MInit /\ [][MNext]_mvars

SelectionSurvivesRedraw == [][act'.name \in {"ToggleHide", "ToggleLegend"} => UNCHANGED <<sel, shift>>]_mvars
ViewSwitchesAreIndependentOfPicks == [][act'.name \in {"Click", "KeyPress", "KeyRelease"} => UNCHANGED <<hide, legend>>]_mvars

MEmit == PrintT(<<"TR", ToJson([pre  |-> [sel |-> sel, shift |-> shift, len |-> len, hide |-> hide, legend |-> legend],
                                act  |-> act',
                                post |-> [sel |-> sel', shift |-> shift', len |-> len', hide |-> hide', legend |-> legend']])>>)
=============================================================================
