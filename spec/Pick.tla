-------------------------------- MODULE Pick --------------------------------
(***************************************************************************)
(* The interactive pole picker (SelFromPlot) as a state machine driven by  *)
(* key and mouse events, and its hand-over to modal-parameter extraction.  *)
(*                                                                         *)
(* The selection is a *list of pairs* <<frequency, order>> kept in a       *)
(* canonical (sorted) order, i.e. a multiset - the property speaks about   *)
(* the set of selected poles, not about their position in a list.          *)
(* Frequencies and click coordinates are integers (quarter units); NaN     *)
(* (= -1) in the table stands for a rejected pole.                         *)
(*                                                                         *)
(* Variants: "SSI" / "pLSCF" (table = Fn_poles, column = model order value *)
(* accepted by extraction) and "FDD" (one column: the frequency grid).     *)
(***************************************************************************)
EXTENDS Integers, Sequences, FiniteSets, TLC, Json

CONSTANTS
    F,        \* pole table: F[r][c], r \in 1..NR, c \in 1..NC (column c is order value c-1); -1 = NaN
    NR, NC,
    Xs,       \* click abscissae (same units as F)
    Ys,       \* click ordinates, in quarter orders: order value o sits at 4*o
    Keys,     \* keys that may be pressed / released ("shift" is the modifier)
    InitShift,\* BOOLEAN: is the modifier already held when the behaviour starts (lets short behaviours hold three picks)
    MaxLen

VARIABLES sel, shift, len, act
vars == <<sel, shift, len, act>>
View == <<sel, shift, len>>

Abs(x) == IF x < 0 THEN -x ELSE x
NaN == -1
Rows == 1..NR
Cols == 1..NC

(* ---- canonical multiset of pairs ---------------------------------------- *)
Key(p) == p[1] * 1000 + p[2]
Ins(s, p) ==
    LET k == Cardinality({i \in DOMAIN s : Key(s[i]) <= Key(p)})
    IN SubSeq(s, 1, k) \o <<p>> \o SubSeq(s, k + 1, Len(s))
Del(s, i) == SubSeq(s, 1, i - 1) \o SubSeq(s, i + 1, Len(s))

(* ---- what a click means -------------------------------------------------- *)
(* model order nearest to the click; an exact tie is not decided by the property *)
NearCols(y) == {c \in Cols : \A d \in Cols : Abs(4 * (c - 1) - y) <= Abs(4 * (d - 1) - y)}
(* retained poles of that order nearest in frequency to the click *)
NearRows(c, x) == {r \in Rows : F[r][c] # NaN /\ \A q \in Rows : F[q][c] # NaN => Abs(F[r][c] - x) <= Abs(F[q][c] - x)}
(* selected entries nearest in frequency to the click *)
NearSel(x) == {i \in DOMAIN sel : \A j \in DOMAIN sel : Abs(sel[i][1] - x) <= Abs(sel[j][1] - x)}

Step == len < MaxLen /\ len' = len + 1

KeyPress(k) ==
    /\ Step
    /\ shift' = IF k = "shift" THEN TRUE ELSE shift
    /\ UNCHANGED sel
    /\ act' = [name |-> "KeyPress", key |-> k]

KeyRelease(k) ==
    /\ Step
    /\ shift' = IF k = "shift" THEN FALSE ELSE shift
    /\ UNCHANGED sel
    /\ act' = [name |-> "KeyRelease", key |-> k]

(* left button + modifier: select *)
Pick(x, y) ==
    /\ shift
    /\ \E c \in NearCols(y) :
          IF NearRows(c, x) = {}
          THEN UNCHANGED sel                            \* nothing retained at that order: nothing selected
          ELSE \E r \in NearRows(c, x) : sel' = Ins(sel, <<F[r][c], c - 1>>)
    /\ UNCHANGED shift

(* right button + modifier: deselect one (which one is not specified) *)
DeselectOne ==
    /\ shift
    /\ IF sel = <<>> THEN UNCHANGED sel
       ELSE \E i \in DOMAIN sel : sel' = Del(sel, i)
    /\ UNCHANGED shift

(* middle button + modifier: deselect the entry nearest in frequency to the click *)
DeselectNearest(x) ==
    /\ shift
    /\ IF sel = <<>> THEN UNCHANGED sel
       ELSE \E i \in NearSel(x) : sel' = Del(sel, i)
    /\ UNCHANGED shift

NoModifier == ~shift /\ UNCHANGED <<sel, shift>>

Click(b, x, y) ==
    /\ Step
    /\ \/ NoModifier
       \/ b = 1 /\ Pick(x, y)
       \/ b = 3 /\ DeselectOne
       \/ b = 2 /\ DeselectNearest(x)
    /\ act' = [name |-> "Click", b |-> b, x |-> x, y |-> y]

Init ==
    /\ sel = <<>> /\ shift = InitShift /\ len = 0
    /\ act = [name |-> "Init"]

Next ==
    \/ \E k \in Keys : KeyPress(k) \/ KeyRelease(k)
    \/ \E b \in 1..3, x \in Xs, y \in Ys : Click(b, x, y)

Spec == Init /\ [][Next]_vars

-----------------------------------------------------------------------------
(* hand-over: what extraction receives when the window is closed *)
HandOver == sel

Cells == {<<F[r][c], c - 1>> : r \in Rows, c \in Cols} \ {<<NaN, c - 1>> : c \in Cols}

Count(s, p) == Cardinality({i \in DOMAIN s : s[i] = p})

(* every selected pair is a pole of the table at the order it sits at *)
Paired == \A i \in DOMAIN sel : sel[i] \in Cells
(* a pick adds exactly one pole of the table and keeps every other entry *)
PickAddsOne ==
    [][(act'.name = "Click" /\ act'.b = 1 /\ shift) =>
          (sel' = sel \/ \E p \in Cells : sel' = Ins(sel, p))]_vars
(* the pole added is a retained pole nearest in frequency at the order nearest to the click *)
PickIsNearest ==
    [][(act'.name = "Click" /\ act'.b = 1 /\ shift /\ sel' # sel) =>
          \E c \in NearCols(act'.y) : \E r \in NearRows(c, act'.x) : sel' = Ins(sel, <<F[r][c], c - 1>>)]_vars
Sorted == \A i \in 1..(Len(sel) - 1) : Key(sel[i]) <= Key(sel[i + 1])
(* the selection does not depend on the order of the clicks *)
OrderIndependent == \A p, q \in Cells : Ins(Ins(sel, p), q) = Ins(Ins(sel, q), p)
(* no modifier, no effect *)
NoOpWithoutModifier == [][(act'.name = "Click" /\ ~shift) => UNCHANGED sel]_vars
DeselectShrinksByOne ==
    [][(act'.name = "Click" /\ act'.b \in {2, 3} /\ shift) =>
          (IF sel = <<>> THEN sel' = sel ELSE Len(sel') = Len(sel) - 1)]_vars
NearestGoes ==
    [][(act'.name = "Click" /\ act'.b = 2 /\ shift /\ sel # <<>>) =>
          \E i \in DOMAIN sel : /\ sel' = Del(sel, i)
                                /\ \A j \in DOMAIN sel : Abs(sel[i][1] - act'.x) <= Abs(sel[j][1] - act'.x)]_vars

Emit == PrintT(<<"TR", ToJson([pre  |-> [sel |-> sel, shift |-> shift, len |-> len],
                               act  |-> act',
                               post |-> [sel |-> sel', shift |-> shift', len |-> len']])>>)
=============================================================================
