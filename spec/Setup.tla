------------------------------- MODULE Setup -------------------------------
(***************************************************************************)
(* Life cycle of a pyOMA2 setup object (SingleSetup / MultiSetup_PreGER).  *)
(*                                                                         *)
(* One action per public call:                                             *)
(*   decimate_data, detrend_data, filter_data, rollback, add_algorithms,   *)
(*   run_by_name, run_all, mpe, save_to_file+load_from_file.               *)
(*                                                                         *)
(* The data array is a *symbolic term*: the sequence `hist` of operations  *)
(* applied to the initial data since construction / the last rollback.     *)
(* Sampling metadata are exact rationals <<num, den>>.  A result is a      *)
(* provenance token <<class, history bound when the algorithm was added>>. *)
(*                                                                         *)
(* Properties C14 (composition, metadata, rollback, binding) and the first *)
(* half of C15 (gating, determinism, isolation, persistence).              *)
(***************************************************************************)
EXTENDS Naturals, Sequences, FiniteSets, TLC, Json

CONSTANTS
    N0,          \* sequence of initial sample counts, one per dataset (single setup: length 1)
    Fs0,         \* initial sampling frequency (positive integer)
    DecOps,      \* set of <<q, variant>> decimation calls
    DetOps,      \* set of detrend variants (strings)
    FilOps,      \* set of filter ids (meaning fixed in harness/tables.py)
    FilMax,      \* filter id -> largest critical frequency [Hz, integer]
    Alphabet,    \* set of [name, cls, par] algorithm instances that may be added
    RunNames,    \* names that run_by_name / mpe may be called with (may include unknown names)
    WithRollback,\* BOOLEAN: is rollback in the alphabet
    WithRunAll,  \* BOOLEAN
    WithSaveLoad,\* BOOLEAN
    MaxLen       \* bound on the length of a behaviour

VARIABLES
    hist,   \* symbolic data term: sequence of preprocessing operations
    qprod,  \* product of decimation factors since construction / rollback
    ndat,   \* sequence: samples per dataset
    meta,   \* what the object reports: [fs, dt, ndat, T] (rationals as <<num, den>>)
    reg,    \* algorithm registry, a sequence in dict insertion order
    err,    \* did the last call raise
    gen,    \* number of rollbacks + loads so far (keeps post-rollback states apart)
    len,    \* number of calls so far
    act     \* history variable naming the last call (hidden by VIEW)

vars == <<hist, qprod, ndat, meta, reg, err, gen, len, act>>
View == <<hist, qprod, ndat, meta, reg, err, gen, len>>

NoRes == <<>>

-----------------------------------------------------------------------------
(* exact arithmetic helpers *)
CeilDiv(n, q) == (n + q - 1) \div q
RatEq(a, b)   == a[1] * b[2] = b[1] * a[2]
RatMul(a, b)  == <<a[1] * b[1], a[2] * b[2]>>

MetaOf(q, nd) ==
    [fs   |-> <<Fs0, q>>,
     dt   |-> <<q, Fs0>>,
     ndat |-> nd,
     T    |-> [i \in DOMAIN nd |-> <<nd[i] * q, Fs0>>]]

Meta0 == MetaOf(1, N0)

-----------------------------------------------------------------------------
Init ==
    /\ hist = <<>>
    /\ qprod = 1
    /\ ndat = N0
    /\ meta = Meta0
    /\ reg = <<>>
    /\ err = FALSE
    /\ gen = 0
    /\ len = 0
    /\ act = [name |-> "Init"]

Step == len < MaxLen /\ len' = len + 1

(* ----- preprocessing ---------------------------------------------------- *)
Decimate(op) ==
    /\ Step
    /\ LET q == op[1]
           nd == [i \in DOMAIN ndat |-> CeilDiv(ndat[i], q)]
       IN /\ hist' = Append(hist, <<"dec", q, op[2]>>)
          /\ qprod' = qprod * q
          /\ ndat' = nd
          /\ meta' = MetaOf(qprod * q, nd)
    /\ err' = FALSE
    /\ UNCHANGED <<reg, gen>>
    /\ act' = [name |-> "Decimate", q |-> op[1], v |-> op[2]]

Detrend(t) ==
    /\ Step
    /\ hist' = Append(hist, <<"det", t>>)
    /\ err' = FALSE
    /\ UNCHANGED <<qprod, ndat, meta, reg, gen>>
    /\ act' = [name |-> "Detrend", t |-> t]

(* a Butterworth design needs every critical frequency strictly below the     *)
(* current Nyquist frequency Fs0 / (2 qprod); otherwise scipy raises and the   *)
(* object is left as it was.                                                 *)
FilterOK(f) == 2 * FilMax[f] * qprod < Fs0

Filter(f) ==
    /\ Step
    /\ IF FilterOK(f)
       THEN hist' = Append(hist, <<"fil", f>>) /\ err' = FALSE
       ELSE hist' = hist /\ err' = TRUE
    /\ UNCHANGED <<qprod, ndat, meta, reg, gen>>
    /\ act' = [name |-> "Filter", f |-> f]

(* rollback: the property fixes data, metadata and counts; it is silent on   *)
(* the registry (the code empties it) - both outcomes are behaviours.        *)
Rollback ==
    /\ WithRollback
    /\ Step
    /\ hist' = <<>>
    /\ qprod' = 1
    /\ ndat' = N0
    /\ meta' = Meta0
    /\ reg' \in {<<>>, reg}
    /\ err' = FALSE
    /\ gen' = gen + 1
    /\ act' = [name |-> "Rollback"]

(* ----- registry ---------------------------------------------------------- *)
Index(name) ==
    IF \E i \in DOMAIN reg : reg[i].name = name
    THEN CHOOSE i \in DOMAIN reg : reg[i].name = name
    ELSE 0

Entry(a) == [name |-> a.name, cls |-> a.cls, par |-> a.par,
             bh |-> hist, bq |-> qprod, ran |-> FALSE, mpe |-> FALSE, res |-> NoRes]

Add(a) ==
    /\ Step
    /\ LET i == Index(a.name)
       IN reg' = IF i = 0 THEN Append(reg, Entry(a))
                          ELSE [reg EXCEPT ![i] = Entry(a)]
    /\ err' = FALSE
    /\ UNCHANGED <<hist, qprod, ndat, meta, gen>>
    /\ act' = [name |-> "Add", alg |-> a.name, cls |-> a.cls, par |-> a.par]

Ran(e) == [e EXCEPT !.ran = TRUE, !.mpe = FALSE, !.res = <<e.cls, e.bh>>]

RunByName(n) ==
    /\ Step
    /\ LET i == Index(n)
       IN IF i # 0 /\ reg[i].par
          THEN reg' = [reg EXCEPT ![i] = Ran(reg[i])] /\ err' = FALSE     \* RunOK
          ELSE reg' = reg /\ err' = TRUE                                   \* RunRejected
    /\ UNCHANGED <<hist, qprod, ndat, meta, gen>>
    /\ act' = [name |-> "RunByName", alg |-> n]

FirstBad == IF \E i \in DOMAIN reg : ~reg[i].par
            THEN CHOOSE i \in DOMAIN reg : ~reg[i].par /\ \A j \in 1..(i-1) : reg[j].par
            ELSE 0

(* run_all iterates the registry in insertion order and aborts at the first  *)
(* rejected run; results stored before that point stay stored.              *)
RunAll ==
    /\ WithRunAll
    /\ Step
    /\ LET b == FirstBad
       IN /\ reg' = [i \in DOMAIN reg |-> IF b = 0 \/ i < b THEN Ran(reg[i]) ELSE reg[i]]
          /\ err' = (b # 0)
    /\ UNCHANGED <<hist, qprod, ndat, meta, gen>>
    /\ act' = [name |-> "RunAll"]

Mpe(n) ==
    /\ Step
    /\ LET i == Index(n)
       IN IF i # 0 /\ reg[i].ran
          THEN reg' = [reg EXCEPT ![i].mpe = TRUE] /\ err' = FALSE        \* MpeOK
          ELSE reg' = reg /\ err' = TRUE                                   \* MpeRejected
    /\ UNCHANGED <<hist, qprod, ndat, meta, gen>>
    /\ act' = [name |-> "Mpe", alg |-> n]

(* pickle round trip: a stuttering step on the abstract state; the harness   *)
(* continues the behaviour on the loaded object.                             *)
SaveLoad ==
    /\ WithSaveLoad
    /\ Step
    /\ err' = FALSE
    /\ gen' = gen + 1
    /\ UNCHANGED <<hist, qprod, ndat, meta, reg>>
    /\ act' = [name |-> "SaveLoad"]

Next ==
    \/ \E op \in DecOps : Decimate(op)
    \/ \E t \in DetOps : Detrend(t)
    \/ \E f \in FilOps : Filter(f)
    \/ Rollback
    \/ \E a \in Alphabet : Add(a)
    \/ \E n \in RunNames : RunByName(n)
    \/ RunAll
    \/ \E n \in RunNames : Mpe(n)
    \/ SaveLoad

Spec == Init /\ [][Next]_vars

-----------------------------------------------------------------------------
(* C14 *)
Prod(s) == LET F[i \in 0..Len(s)] == IF i = 0 THEN 1
                                     ELSE IF s[i][1] = "dec" THEN F[i-1] * s[i][2] ELSE F[i-1]
           IN F[Len(s)]

NdatOf(s) == LET F[i \in 0..Len(s)] ==
                   IF i = 0 THEN N0
                   ELSE IF s[i][1] = "dec"
                        THEN [k \in DOMAIN N0 |-> CeilDiv(F[i-1][k], s[i][2])]
                        ELSE F[i-1]
             IN F[Len(s)]

(* the reported attributes describe the data term *)
MetaTruthful ==
    /\ qprod = Prod(hist)
    /\ ndat = NdatOf(hist)
    /\ meta.fs[1] = Fs0 * 1 /\ meta.fs[2] = qprod            \* fs = Fs0 / every decimation factor
    /\ RatEq(RatMul(meta.fs, meta.dt), <<1, 1>>)               \* dt = 1 / fs
    /\ meta.ndat = ndat                                        \* counts = array lengths
    /\ \A i \in DOMAIN ndat : RatEq(meta.T[i], RatMul(<<ndat[i], 1>>, meta.dt))   \* T = samples x dt

(* rollback restores the start *)
RollbackRestores ==
    [][act'.name = "Rollback" => (hist' = <<>> /\ qprod' = 1 /\ ndat' = N0 /\ meta' = Meta0)]_vars

(* the data bound to an algorithm is frozen when it is added *)
BindingFrozen ==
    [][\A i \in DOMAIN reg : \A j \in DOMAIN reg' :
          (reg[i].name = reg'[j].name /\ ~(act'.name = "Add" /\ act'.alg = reg[i].name))
             => (reg'[j].bh = reg[i].bh /\ reg'[j].bq = reg[i].bq)]_vars

BoundToCurrent ==
    [][act'.name = "Add" => \E j \in DOMAIN reg' :
           reg'[j].name = act'.alg /\ reg'[j].bh = hist /\ reg'[j].bq = qprod]_vars

(* C15 *)
ResultIsFunctionOfBinding ==
    \A i \in DOMAIN reg : /\ reg[i].res \in {NoRes, <<reg[i].cls, reg[i].bh>>}
                          /\ (reg[i].res # NoRes) = reg[i].ran
                          /\ reg[i].mpe => reg[i].ran

Gated ==
    [][/\ (act'.name = "RunByName" /\ err') => reg' = reg
       /\ (act'.name = "Mpe" /\ err') => reg' = reg
       /\ (act'.name = "RunByName" /\ ~err') =>
              \E i \in DOMAIN reg : reg[i].name = act'.alg /\ reg[i].par /\ reg'[i].ran
       /\ (act'.name = "Mpe" /\ ~err') =>
              \E i \in DOMAIN reg : reg[i].name = act'.alg /\ reg[i].ran]_vars

Isolation ==
    [][\A i \in DOMAIN reg :
          (act'.name \in {"RunByName", "Mpe"} /\ i \in DOMAIN reg' /\ reg[i].name # act'.alg)
             => reg'[i] = reg[i]]_vars

NoDataChangeByOrchestration ==
    [][act'.name \in {"Add", "RunByName", "RunAll", "Mpe", "SaveLoad"}
          => UNCHANGED <<hist, qprod, ndat, meta>>]_vars

UniqueNames == \A i, j \in DOMAIN reg : reg[i].name = reg[j].name => i = j

-----------------------------------------------------------------------------
(* emission of the transition relation for conformance replay *)
St(h, q, nd, m, r, e, g, l) ==
    [hist |-> h, qprod |-> q, ndat |-> nd, meta |-> m, reg |-> r, err |-> e, gen |-> g, len |-> l]

Emit == PrintT(<<"TR", ToJson([pre  |-> St(hist, qprod, ndat, meta, reg, err, gen, len),
                               act  |-> act',
                               post |-> St(hist', qprod', ndat', meta', reg', err', gen', len')])>>)
=============================================================================
