------------------------------- MODULE Poles -------------------------------
(***************************************************************************)
(* From raw poles to diagrams: the pole-table pipeline of the SSI and      *)
(* pLSCF algorithm classes.                                                *)
(*                                                                         *)
(*   HardCriteria  (C09)  mask every table where a criterion fails         *)
(*   Label         (C10)  stability labels between consecutive orders      *)
(*   Extract       (C11)  modal parameters at explicit orders / find_min   *)
(*   Draw          (C20)  which marker is drawn where                      *)
(*                                                                         *)
(* A table is tab[r][c], r \in 1..NR (pole slot), c \in 1..NC (column);     *)
(* Ord[c] is the model-order *value* of column c, i.e. the number the       *)
(* extraction routine accepts for that column.  A cell is NaN or a record   *)
(*    [f, xi, sh, cj, cov]                                                 *)
(* f  : frequency in ticks (FDen ticks per Hz)                             *)
(* xi : damping in ticks (XDen ticks per unit)                             *)
(* sh : id into the catalogue Shapes of Gaussian-integer vectors           *)
(* cj : is the complex-conjugate pole present at this order                *)
(* cov: frequency covariance in ticks (CDen per unit)                      *)
(***************************************************************************)
EXTENDS Integers, Sequences, FiniteSets, TLC, Json

CONSTANTS
    NR, NC,
    Ord,         \* <<o_1, ..., o_NC>>
    Tables,      \* set of initial tables (sequence of rows of cells)
    FDen, XDen, CDen,
    Shapes,      \* <<shape_1, ...>>, shape = <<<<re, im>>, ...>>
    MpcGE,       \* MpcGE[sh][k] : MPC(shape sh) >= k-th MPC limit   (library's indicator, see C18)
    MpdLE,       \* MpdLE[sh][k] : MPD(shape sh) <= k-th MPD limit
    HcSets,      \* set of hard-criteria settings [conj, ximax, mpc, mpd, unc, covmax]
    ScSets,      \* set of soft-criteria settings [ordmin, ordmax, efn, exi, ephi] (tolerances <<num, den>>)
    ExSets,      \* set of extraction requests [req, kind, ords, rtol]; kind: "find_min" | "int" | "list";
                 \* ords[i] = order value for request i (kind "int": all equal)
    DrawSets,    \* set of [hide, flim] (flim: id of the frequency limits handed to the plot, 0 = none)
    Focus        \* "hc" | "label" | "extract" | "draw" | "pipeline"

VARIABLES tab, raw, adm, out, marks, stage, act
vars == <<tab, raw, adm, out, marks, stage, act>>
View == <<tab, raw, adm, out, marks, stage>>

NaN == [nan |-> TRUE]
Rows == 1..NR
Cols == 1..NC
Abs(x) == IF x < 0 THEN -x ELSE x
IsNaN(x) == x = NaN

-----------------------------------------------------------------------------
(* exact MAC of two Gaussian-integer vectors, as <<num, den>> *)
Dot(x, y) ==   \* conj(x) . y  as <<re, im>>
    LET S[k \in 0..Len(x)] ==
          IF k = 0 THEN <<0, 0>>
          ELSE <<S[k-1][1] + x[k][1] * y[k][1] + x[k][2] * y[k][2],
                 S[k-1][2] + x[k][1] * y[k][2] - x[k][2] * y[k][1]>>
    IN S[Len(x)]
Norm2(x) == Dot(x, x)[1]
MAC(a, b) == LET d == Dot(Shapes[a], Shapes[b])
             IN <<d[1] * d[1] + d[2] * d[2], Norm2(Shapes[a]) * Norm2(Shapes[b])>>

-----------------------------------------------------------------------------
(* C09 - hard criteria *)
Keep(p, hc) ==
    /\ hc.conj => p.cj
    /\ p.xi > 0 /\ p.xi * hc.ximax[2] < hc.ximax[1] * XDen          \* 0 < xi < xi_max
    /\ MpcGE[p.sh][hc.mpc]
    /\ MpdLE[p.sh][hc.mpd]
    /\ hc.unc => p.cov * hc.covmax[2] < hc.covmax[1] * CDen          \* cov < cov_max

Mask(t, hc) == [r \in Rows |-> [c \in Cols |->
                  IF ~IsNaN(t[r][c]) /\ Keep(t[r][c], hc) THEN t[r][c] ELSE NaN]]

HardCriteria(hc) ==
    /\ stage = "raw"
    /\ tab' = Mask(tab, hc)
    /\ stage' = "filtered"
    /\ UNCHANGED <<raw, adm, out, marks>>
    /\ act' = [name |-> "HardCriteria", hc |-> hc]

-----------------------------------------------------------------------------
(* C10 - stability labels *)
PrevNonEmpty(c) == c > 1 /\ \E q \in Rows : ~IsNaN(tab[q][c-1])
Nearest(r, c) ==   \* rows of the previous column closest in frequency to cell (r, c)
    {q \in Rows : /\ ~IsNaN(tab[q][c-1])
                  /\ \A s \in Rows : ~IsNaN(tab[s][c-1]) =>
                        Abs(tab[q][c-1].f - tab[r][c].f) <= Abs(tab[s][c-1].f - tab[r][c].f)}
Passes(p, q, sc) ==   \* p: this order, q: previous order
    /\ Abs(p.f - q.f) * sc.efn[2] < sc.efn[1] * p.f
    /\ Abs(p.xi - q.xi) * sc.exi[2] < sc.exi[1] * p.xi
    /\ LET m == MAC(p.sh, q.sh) IN (m[2] - m[1]) * sc.ephi[2] < sc.ephi[1] * m[2]
InRange(c, sc) == Ord[c] >= sc.ordmin /\ Ord[c] <= sc.ordmax
(* the set of labels the property admits for a cell (two elements only on an exact tie) *)
AdmLab(r, c, sc) ==
    IF IsNaN(tab[r][c]) \/ c = 1 \/ ~InRange(c, sc) \/ ~PrevNonEmpty(c) THEN {0}
    ELSE {IF Passes(tab[r][c], tab[q][c-1], sc) THEN 1 ELSE 0 : q \in Nearest(r, c)}

Label(sc) ==
    /\ stage = "filtered"
    /\ adm' = [r \in Rows |-> [c \in Cols |-> AdmLab(r, c, sc)]]
    /\ stage' = "labelled"
    /\ UNCHANGED <<tab, raw, out, marks>>
    /\ act' = [name |-> "Label", sc |-> sc]

-----------------------------------------------------------------------------
(* C11 - extraction *)
ColOf(o) == IF \E c \in Cols : Ord[c] = o THEN CHOOSE c \in Cols : Ord[c] = o ELSE 0
Close(f, req, rtol) == Abs(f - req) * rtol[2] <= rtol[1] * req
NearestTo(c, req) ==
    {r \in Rows : /\ ~IsNaN(tab[r][c])
                  /\ \A s \in Rows : ~IsNaN(tab[s][c]) => Abs(tab[r][c].f - req) <= Abs(tab[s][c].f - req)}
(* explicit order: admissible answers for one request - a set of cells <<r, c>>, or {None} *)
None == <<0, 0>>
Answer(req, o, rtol) ==
    LET c == ColOf(o)
        near == NearestTo(c, req)
        ok == {r \in near : Close(tab[r][c].f, req, rtol)}
    IN IF ok = {} THEN {None} ELSE {<<r, c>> : r \in ok}

Stable(r, c) == ~IsNaN(tab[r][c]) /\ adm[r][c] = {1}
StableNear(c, req, rtol) == {r \in Rows : Stable(r, c) /\ Close(tab[r][c].f, req, rtol)}
(* "exactly one stable pole": one frequency value (conjugate twins share it) *)
OneStable(c, req, rtol) ==
    /\ StableNear(c, req, rtol) # {}
    /\ \A r, s \in StableNear(c, req, rtol) : tab[r][c].f = tab[s][c].f
Qualifies(c, ex) == \A i \in DOMAIN ex.req : OneStable(c, ex.req[i], ex.rtol)
MinCol(ex) == IF \E c \in Cols : Qualifies(c, ex)
              THEN CHOOSE c \in Cols : Qualifies(c, ex) /\ \A d \in Cols : Qualifies(d, ex) => c <= d
              ELSE 0

Extract(ex) ==
    /\ stage = "labelled"
    /\ IF ex.kind = "find_min"
       THEN LET c == MinCol(ex)
            IN out' = [order |-> IF c = 0 THEN -1 ELSE Ord[c],
                       cells |-> IF c = 0 THEN <<>>
                                 ELSE [i \in DOMAIN ex.req |-> {<<r, c>> : r \in StableNear(c, ex.req[i], ex.rtol)}]]
       ELSE out' = [order |-> ex.ords,
                    cells |-> [i \in DOMAIN ex.req |-> Answer(ex.req[i], ex.ords[i], ex.rtol)]]
    /\ stage' = "extracted"
    /\ UNCHANGED <<tab, raw, adm, marks>>
    /\ act' = [name |-> "Extract", ex |-> ex]

-----------------------------------------------------------------------------
(* C20 - diagrams: multisets of marker coordinates (as sets of <<r, c>> cells; the harness turns a cell  *)
(* into (frequency, order value) for the stabilisation diagram and (frequency, damping) for the cluster) *)
Draw(d) ==
    /\ stage = "labelled"
    /\ marks' = [stable   |-> {<<r, c>> \in Rows \X Cols : Stable(r, c)},
                 unstable |-> IF d.hide THEN {}
                              ELSE {<<r, c>> \in Rows \X Cols : ~IsNaN(tab[r][c]) /\ ~Stable(r, c)},
                 hide |-> d.hide,
                 flim |-> d.flim]          \* frequency limits only move the view: they never change which markers exist
    /\ stage' = "drawn"
    /\ UNCHANGED <<tab, raw, adm, out>>
    /\ act' = [name |-> "Draw", d |-> d]

-----------------------------------------------------------------------------
NoAdm == [r \in Rows |-> [c \in Cols |-> {0}]]
AllStable(t) == [r \in Rows |-> [c \in Cols |-> IF IsNaN(t[r][c]) \/ t[r][c].cj THEN {IF IsNaN(t[r][c]) THEN 0 ELSE 1} ELSE {0}]]

(* The focus decides where the pipeline is entered: a table may be handed in raw, already  *)
(* filtered, or already labelled (then the cell flag cj is re-used as "labelled stable").  *)
Init ==
    /\ tab \in Tables
    /\ raw = tab
    /\ out = <<>>
    /\ marks = <<>>
    /\ act = [name |-> "Init"]
    /\ CASE Focus \in {"hc", "pipeline"} -> stage = "raw" /\ adm = NoAdm
         [] Focus = "label"              -> stage = "filtered" /\ adm = NoAdm
         [] Focus \in {"extract", "draw"} -> stage = "labelled" /\ adm = AllStable(tab)

Next ==
    \/ \E hc \in HcSets : HardCriteria(hc)
    \/ \E sc \in ScSets : Label(sc)
    \/ \E ex \in ExSets : Extract(ex)
    \/ \E d \in DrawSets : Draw(d)

Spec == Init /\ [][Next]_vars

-----------------------------------------------------------------------------
(* C09 *)
Filtered == stage # "raw"
Sound == (Filtered /\ act.name = "HardCriteria") =>
            \A r \in Rows, c \in Cols : ~IsNaN(tab[r][c]) => Keep(tab[r][c], act.hc)
Complete == (Filtered /\ act.name = "HardCriteria") =>
            \A r \in Rows, c \in Cols : (~IsNaN(raw[r][c]) /\ Keep(raw[r][c], act.hc)) => tab[r][c] = raw[r][c]
ValuesUnchanged == \A r \in Rows, c \in Cols : ~IsNaN(tab[r][c]) => tab[r][c] = raw[r][c]

(* C10 *)
NeverStable ==
    stage = "labelled" /\ act.name = "Label" =>
        \A r \in Rows, c \in Cols :
            (IsNaN(tab[r][c]) \/ c = 1 \/ ~PrevNonEmpty(c) \/ ~InRange(c, act.sc)) => adm[r][c] = {0}
LabelsDecided == \A r \in Rows, c \in Cols : adm[r][c] # {} /\ adm[r][c] \subseteq {0, 1}
LabelsPure == [][act'.name = "Label" => adm' = [r \in Rows |-> [c \in Cols |-> AdmLab(r, c, act'.sc)]]]_vars

(* C11 *)
Whole == stage = "extracted" =>
            \A i \in DOMAIN out.cells : \A x \in out.cells[i] : x = None \/ ~IsNaN(tab[x[1]][x[2]])
OnlyIfClose == (stage = "extracted" /\ act.ex.kind # "find_min") =>
            \A i \in DOMAIN out.cells : \A x \in out.cells[i] :
                x # None => Close(tab[x[1]][x[2]].f, act.ex.req[i], act.ex.rtol)
NearestReturned == (stage = "extracted" /\ act.ex.kind # "find_min") =>
            \A i \in DOMAIN out.cells : \A x \in out.cells[i] :
                x # None => \A s \in Rows : ~IsNaN(tab[s][x[2]]) =>
                     Abs(tab[x[1]][x[2]].f - act.ex.req[i]) <= Abs(tab[s][x[2]].f - act.ex.req[i])
Minimal == (stage = "extracted" /\ act.ex.kind = "find_min" /\ out.order # -1) =>
            /\ Qualifies(ColOf(out.order), act.ex)
            /\ \A c \in Cols : Ord[c] < out.order => ~Qualifies(c, act.ex)
            /\ \A i \in DOMAIN out.cells : \A x \in out.cells[i] : x[2] = ColOf(out.order)

(* C20 *)
MarkersExact == stage = "drawn" =>
    /\ \A r \in Rows, c \in Cols :
          /\ <<r, c>> \in marks.stable <=> Stable(r, c)
          /\ IsNaN(tab[r][c]) => (<<r, c>> \notin marks.stable /\ <<r, c>> \notin marks.unstable)
          /\ (~marks.hide /\ ~IsNaN(tab[r][c]) /\ ~Stable(r, c)) => <<r, c>> \in marks.unstable
    /\ marks.stable \cap marks.unstable = {}
    /\ marks.hide => marks.unstable = {}

-----------------------------------------------------------------------------
AdmSeq(a) == [r \in Rows |-> [c \in Cols |-> IF a[r][c] = {0} THEN 0 ELSE IF a[r][c] = {1} THEN 1 ELSE 2]]
Emit == PrintT(<<"TR", ToJson([pre  |-> [tab |-> tab, stage |-> stage],
                               act  |-> act',
                               post |-> [tab |-> tab', adm |-> AdmSeq(adm'), out |-> out', marks |-> marks',
                                         stage |-> stage']])>>)
=============================================================================
