------------------------------- MODULE Perm -------------------------------
(***************************************************************************)
(* The two index helpers of pyoma2.functions.gen that re-order channels:   *)
(*   invperm(p)      - inverse of a permutation of 0 .. n-1                *)
(*   find_map(a, b)  - for arrays a, b of n distinct keys: the index map   *)
(*                     m with  rank_b(m[i]) = rank_a(i), i.e. position i   *)
(*                     of a is sent to the position of b holding the key   *)
(*                     of the same rank (o2[invperm(o1)], o = argsort).    *)
(* Keys are abstracted to their ranks (a permutation of 0 .. n-1); the     *)
(* harness maps ranks to distinct floats / strings by strictly increasing  *)
(* maps, which argsort cannot distinguish from the ranks themselves.       *)
(* Extra behaviour coverage (no property id): deviations are observations  *)
(* (harness/extras/perm.py).                                               *)
(***************************************************************************)
EXTENDS Integers, Sequences, FiniteSets, TLC, Json

CONSTANTS N

VARIABLES cfg, out, act
vars == <<cfg, out, act>>
View == <<cfg, out>>

Idx == 0..(N - 1)
Perms == {p \in [Idx -> Idx] : \A i, j \in Idx : p[i] = p[j] => i = j}
Inv(p) == [i \in Idx |-> CHOOSE j \in Idx : p[j] = i]
(* argsort of an array of ranks: position of the k-th smallest key *)
Argsort(a) == Inv(a)
FindMap(a, b) == LET o1 == Argsort(a) o2 == Argsort(b) r == Inv(o1) IN [i \in Idx |-> o2[r[i]]]
Id == [i \in Idx |-> i]

Init == /\ cfg \in [op : {"invperm"}, a : Perms, b : {Id}] \cup [op : {"find_map"}, a : Perms, b : Perms]
        /\ out = <<>> /\ act = [name |-> "Init"]

Apply ==
    /\ out = <<>>
    /\ out' = IF cfg.op = "invperm" THEN [m |-> Inv(cfg.a)] ELSE [m |-> FindMap(cfg.a, cfg.b)]
    /\ UNCHANGED cfg
    /\ act' = [name |-> "Apply"]

Next == Apply
Spec == Init /\ [][Next]_vars

Done == out # <<>>
ResultIsPermutation == Done => out.m \in Perms
InverseComposes == (Done /\ cfg.op = "invperm") => \A i \in Idx : cfg.a[out.m[i]] = i /\ out.m[cfg.a[i]] = i
InverseTwice == (Done /\ cfg.op = "invperm") => Inv(out.m) = cfg.a
MapPreservesRank == (Done /\ cfg.op = "find_map") => \A i \in Idx : cfg.b[out.m[i]] = cfg.a[i]
MapOfSelfIsIdentity == (Done /\ cfg.op = "find_map" /\ cfg.a = cfg.b) => out.m = Id
MapsCompose == (Done /\ cfg.op = "find_map") => \A c \in Perms : \A i \in Idx : FindMap(cfg.b, c)[out.m[i]] = FindMap(cfg.a, c)[i]

Emit == PrintT(<<"TR", ToJson([cfg |-> cfg, out |-> out'])>>)
=============================================================================
