------------------------------- MODULE Spectra ------------------------------
(***************************************************************************)
(* Structure of the spectral-matrix estimation (C13) and of the PreGER     *)
(* merged spectral matrix (C04).  The spectra themselves are floating      *)
(* point; what is specified here is everything that is index arithmetic:   *)
(*   the frequency grid, the shape, which channel is paired with which     *)
(*   reference, which samples enter which segment, the conjugation sign,   *)
(*   the scaling law under a gain, and the row / column correspondence     *)
(*   between the merged multi-setup matrix and the single-setup matrix.    *)
(***************************************************************************)
EXTENDS Layout, TLC, Json

CONSTANTS
    EstCfgs,     \* set of [nall, nref, n, nxseg, ovl, method, fsn, fsd, ci, pi, rj, pj]  (focus "est")
                 \*   ovl = nxseg * pov (integer), fs = fsn / fsd, impulse in data channel ci at sample pi and in
                 \*   reference channel rj at sample pj (0-based)
    MergeNRef,   \* focus "preger": number of shared reference channels
    MergeCounts, \* set of roving-count sequences
    MergeParams, \* set of [nxseg, ovl, method]
    GainIds,     \* set of per-setup gain pattern ids (meaning in the harness)
    Focus        \* "est" | "preger"

VARIABLES cfg, out, act
vars == <<cfg, out, act>>
View == <<cfg, out>>

(* ---- C13 ---------------------------------------------------------------- *)
(* the periodogram estimator cuts segments of nxseg samples every nxseg - ovl samples; the correlogram   *)
(* estimator cuts non-overlapping half-length segments, whatever the overlap                               *)
SegLen(c) == IF c.method = "per" THEN c.nxseg ELSE c.nxseg \div 2
SegStep(c) == IF c.method = "per" THEN c.nxseg - c.ovl ELSE c.nxseg \div 2
NSeg(c) == IF c.n < SegLen(c) THEN 0 ELSE (c.n - SegLen(c)) \div SegStep(c) + 1
Segments(c) == [k \in 1..NSeg(c) |-> <<(k - 1) * SegStep(c), (k - 1) * SegStep(c) + SegLen(c) - 1>>]
InSeg(p, s) == s[1] <= p /\ p <= s[2]
Share(c) == \E k \in 1..NSeg(c) : InSeg(c.pi, Segments(c)[k]) /\ InSeg(c.pj, Segments(c)[k])

NLines(c) == c.nxseg \div 2 + 1
(* line k sits at k * fs / nxseg = k * fsn / (fsd * nxseg) *)
GridStep(c) == <<c.fsn, c.fsd * c.nxseg>>

Estimate ==
    /\ Focus = "est" /\ out = <<>>
    /\ out' = [shape |-> <<cfg.nall, cfg.nref, NLines(cfg)>>,
               step |-> GridStep(cfg),
               last |-> <<cfg.fsn, 2 * cfg.fsd>>,                 \* Nyquist frequency fs / 2
               segs |-> Segments(cfg),
               nonzero |-> [i \in 0..(cfg.nall - 1) |-> [j \in 0..(cfg.nref - 1) |->
                              i = cfg.ci /\ j = cfg.rj /\ Share(cfg)]],
               gain_exponent |-> 2,                               \* Sy(g x, g y) = g^2 Sy(x, y)
               conj_sign |-> -1]                                  \* phase of Sy[i][j] / Sy[j][j] for a copy delayed by d: -2 pi f d
    /\ UNCHANGED cfg
    /\ act' = [name |-> "Estimate"]

(* ---- C04 ---------------------------------------------------------------- *)
MergeSpectra ==
    /\ Focus = "preger" /\ out = <<>>
    /\ out' = [rows |-> GlobalOrder(cfg.lays),                     \* global channel of every row of the merged matrix
               cols |-> RefSensors(cfg.lays[1]),                   \* global channel of every column
               row_setup |-> [r \in DOMAIN GlobalOrder(cfg.lays) |->
                                IF r <= Len(cfg.lays[1].ref) THEN 0
                                ELSE CHOOSE i \in DOMAIN cfg.lays : GlobalOrder(cfg.lays)[r] \in Range(MovSensors(cfg.lays[i]))],
               ref_block |-> "mean_over_setups",
               rov_block |-> "transmissibility_times_mean_reference"]
    /\ UNCHANGED cfg
    /\ act' = [name |-> "MergeSpectra"]

Init ==
    /\ out = <<>> /\ act = [name |-> "Init"]
    /\ IF Focus = "est" THEN cfg \in EstCfgs
       ELSE \E cnt \in MergeCounts : \E l \in AllLayouts(MergeNRef, cnt) : \E p \in MergeParams : \E g \in GainIds :
               cfg = [lays |-> l, par |-> p, gain |-> g]

Next == Estimate \/ MergeSpectra
Spec == Init /\ [][Next]_vars

Done == out # <<>>
(* C13 *)
SegmentsInsideRecord == (Focus = "est") =>
    \A k \in 1..NSeg(cfg) : Segments(cfg)[k][1] >= 0 /\ Segments(cfg)[k][2] <= cfg.n - 1
SegmentsCoverStep == (Focus = "est") =>
    \A k \in 1..(NSeg(cfg) - 1) : Segments(cfg)[k + 1][1] - Segments(cfg)[k][1] = SegStep(cfg)
NoMoreSegmentFits == (Focus = "est" /\ NSeg(cfg) >= 1) => Segments(cfg)[NSeg(cfg)][1] + SegStep(cfg) + SegLen(cfg) > cfg.n
GridReachesNyquist == (Focus = "est" /\ Done) =>
    (NLines(cfg) - 1) * out.step[1] * out.last[2] = out.last[1] * out.step[2]      \* (nxseg/2) * fs/nxseg = fs/2
OnlyThePairedEntry == (Focus = "est" /\ Done) =>
    \A i \in 0..(cfg.nall - 1), j \in 0..(cfg.nref - 1) : out.nonzero[i][j] => (i = cfg.ci /\ j = cfg.rj)
(* C04 *)
MergedRowsAreAllChannels == (Focus = "preger" /\ Done) =>
    /\ Range(out.rows) = UNION {Range(cfg.lays[i].chan) : i \in DOMAIN cfg.lays}
    /\ \A a, b \in DOMAIN out.rows : a # b => out.rows[a] # out.rows[b]
    /\ \A j \in DOMAIN out.cols : out.rows[j] = out.cols[j]                           \* references first

Emit == PrintT(<<"TR", ToJson([cfg |-> cfg, out |-> out'])>>)
=============================================================================
