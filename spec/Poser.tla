------------------------------- MODULE Poser -------------------------------
(***************************************************************************)
(* MultiSetup_PoSER: the constructor's decision table (C15) and the merge  *)
(* of per-setup results (C02, see PoserMerge.tla for the arithmetic).      *)
(*                                                                         *)
(* A configuration is a sequence of setups; a setup is a sequence (dict    *)
(* insertion order) of algorithm records [type, st] with                   *)
(*    st = 0 : added, not run      st = 1 : run, modes not extracted       *)
(*    st = 2 : run and modes extracted                                     *)
(* plus the number of names handed to the constructor.                     *)
(***************************************************************************)
EXTENDS Naturals, Sequences, FiniteSets, TLC, Json

CONSTANTS
    MaxSetups,   \* 0..MaxSetups setups
    MaxAlgs,     \* 0..MaxAlgs algorithms per setup
    Types,       \* set of algorithm type ids
    MaxNames     \* 0..MaxNames names

VARIABLES cfg, outcome, act
vars == <<cfg, outcome, act>>
View == <<cfg, outcome>>

Alg == [type : Types, st : 0..2]

SeqsUpTo(S, n) == UNION {[1..k -> S] : k \in 0..n}

SetupT == SeqsUpTo(Alg, MaxAlgs)
Config == [setups : SeqsUpTo(SetupT, MaxSetups), nnames : 0..MaxNames]

TypesOf(s) == [i \in DOMAIN s |-> s[i].type]

(* the five conditions the property lists *)
EnoughSetups(c) == Len(c.setups) >= 2
NonEmpty(c)     == \A i \in DOMAIN c.setups : Len(c.setups[i]) >= 1
SameTypes(c)    == \A i \in DOMAIN c.setups : TypesOf(c.setups[i]) = TypesOf(c.setups[1])
AllExtracted(c) == \A i \in DOMAIN c.setups : \A j \in DOMAIN c.setups[i] : c.setups[i][j].st = 2
NamesMatch(c)   == Len(c.setups) >= 1 => c.nnames = Len(c.setups[1])

Accept(c) == EnoughSetups(c) /\ NonEmpty(c) /\ SameTypes(c) /\ AllExtracted(c) /\ NamesMatch(c)

Init == cfg \in Config /\ outcome = "pending" /\ act = [name |-> "Init"]

Construct ==
    /\ outcome = "pending"
    /\ outcome' = IF Accept(cfg) THEN "Built" ELSE "ValueError"
    /\ UNCHANGED cfg
    /\ act' = [name |-> "Construct"]

Next == Construct
Spec == Init /\ [][Next]_vars

(* what the property promises, clause by clause *)
BuiltOnlyIfValid ==
    outcome = "Built" =>
        /\ Len(cfg.setups) >= 2
        /\ \A i \in DOMAIN cfg.setups :
              /\ Len(cfg.setups[i]) = cfg.nnames                       \* one name per algorithm
              /\ \A j \in DOMAIN cfg.setups[i] :
                    /\ cfg.setups[i][j].st = 2                         \* run and extracted
                    /\ cfg.setups[i][j].type = cfg.setups[1][j].type   \* identical types in identical order
RejectedOnlyIfInvalid == outcome = "ValueError" => ~Accept(cfg)
TwoOutcomes == outcome \in {"pending", "Built", "ValueError"}

Emit == PrintT(<<"TR", ToJson([cfg |-> cfg, out |-> outcome'])>>)
=============================================================================
