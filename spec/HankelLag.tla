----------------------------- MODULE HankelLag -----------------------------
(* For every block-row parameter br, every block row i, block column j and every averaged product t, the sample     *)
(* index of the data minus the sample index of the reference data is the single lag i + j + 1 (moment-matrix         *)
(* method), and every index lies inside a record of Ndat samples - for ALL sizes, not only the enumerated ones.     *)
EXTENDS Integers

Q(br) == br + 1
NN(ndat, br) == ndat - 2 * br - 1
Fut(br, i, t) == Q(br) + 1 + i + t
Past(br, j, t) == Q(br) - j + t

THEOREM SingleLag ==
    \A br \in Nat, i \in Nat, j \in Nat, t \in Nat : Fut(br, i, t) - Past(br, j, t) = i + j + 1
  BY DEF Fut, Past, Q

THEOREM InRange ==
    \A ndat \in Nat, br \in Nat : \A i \in 0..br, t \in Nat :
        (t <= NN(ndat, br) - 2 /\ NN(ndat, br) >= 2) =>
            /\ Fut(br, i, t) >= 0 /\ Fut(br, i, t) <= ndat - 1
            /\ Past(br, i, t) >= 0 /\ Past(br, i, t) <= ndat - 1
  BY DEF Fut, Past, Q, NN

THEOREM ToeplitzIsReflectedHankel ==
    \A br \in Nat : \A i \in 0..br, j \in 0..br : (br + i - (br - j)) + 1 = i + j + 1
  OBVIOUS

(* a decimation by q maps a record of n samples to ceil(n / q) samples; the duration in units of the old sampling     *)
(* interval, q * ceil(n / q), never under-reports and over-reports by less than one new sampling interval          *)
CeilDiv(n, q) == (n + q - 1) \div q
THEOREM DecimatedDuration ==
    \A n \in Nat : \A q \in {2, 3, 4, 5} : q * CeilDiv(n, q) >= n /\ q * CeilDiv(n, q) < n + q
  BY DEF CeilDiv
=============================================================================
