------------------------------- MODULE PolyId -------------------------------
(***************************************************************************)
(* pLSCF on an exactly rational spectrum (C05).                            *)
(*                                                                         *)
(* A system is a right matrix fraction B(z) A(z)^-1 of order n whose       *)
(* denominator is built from Nch real scalar polynomials of degree n (one  *)
(* per channel, mixed by constant invertible matrices in the harness).     *)
(* The specification knows, per polynomial, how many roots of each class   *)
(* it has:  sp stable conjugate pairs, up unstable pairs, sr stable real   *)
(* roots, ur unstable real roots  (2 sp + 2 up + sr + ur = n), "stable"    *)
(* meaning non-positive real part under the library's map ln(z)/dt.        *)
(* It predicts the layout of the pole tables and what the order-n column   *)
(* holds: one pole per root with non-positive real part, NaN elsewhere.    *)
(***************************************************************************)
EXTENDS Integers, Sequences, FiniteSets, TLC, Json

CONSTANTS
    Orders,     \* set of n
    Chans,      \* set of Nch
    Refs,       \* set of Nref
    Signs,      \* subset of {-1, 1}
    Extra,      \* set of ordmax - n
    DtIds, NfIds   \* ids interpreted by the harness (dt values; line counts >= 4 (n + 1))

VARIABLES sys, out, act
vars == <<sys, out, act>>
View == <<sys, out>>

Comp(n) == {c \in [sp : 0..n, up : 0..n, sr : 0..n, ur : 0..n] : 2 * c.sp + 2 * c.up + c.sr + c.ur = n}
Sum(s, f(_)) == LET F[i \in 0..Len(s)] == IF i = 0 THEN 0 ELSE F[i - 1] + f(s[i]) IN F[Len(s)]
StableOf(c) == 2 * c.sp + c.sr
UnstableOf(c) == 2 * c.up + c.ur

Init ==
    /\ out = <<>> /\ act = [name |-> "Init"]
    /\ \E n \in Orders, nch \in Chans, nref \in Refs, sg \in Signs, e \in Extra, d \in DtIds, f \in NfIds :
         \E polys \in [1..nch -> Comp(n)] :
            sys = [n |-> n, nch |-> nch, nref |-> nref, sign |-> sg, ordmax |-> n + e, dt |-> d, nf |-> f, polys |-> polys]

Identify ==
    /\ out = <<>>
    /\ out' = [constraint |-> IF sys.sign = -1 THEN "A0_identity" ELSE "An_identity",
               column |-> sys.n - 1,                                         \* 0-based column of the order-n model
               slots |-> [k \in 0..(sys.ordmax - 1) |-> (k + 1) * sys.nch],  \* pole slots per column
               rows |-> sys.ordmax * sys.nch,
               reported |-> Sum(sys.polys, StableOf),                        \* one pole per stable root
               blanked |-> Sum(sys.polys, UnstableOf)]
    /\ UNCHANGED sys
    /\ act' = [name |-> "Identify"]

Next == Identify
Spec == Init /\ [][Next]_vars

Done == out # <<>>
OnePerRoot == Done => out.reported + out.blanked = sys.n * sys.nch
NaNElsewhere == Done => out.reported <= out.slots[sys.n - 1] /\ out.slots[sys.n - 1] = sys.n * sys.nch
SlotsGrow == Done => \A k \in 0..(sys.ordmax - 2) : out.slots[k + 1] = out.slots[k] + sys.nch
OrderWithinMax == sys.n <= sys.ordmax

Emit == PrintT(<<"TR", ToJson([sys |-> sys, out |-> out'])>>)
=============================================================================
