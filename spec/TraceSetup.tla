----------------------------- MODULE TraceSetup -----------------------------
(***************************************************************************)
(* Conformance direction B for Setup.tla: a recorded execution of a real   *)
(* setup object (the repository's own tests, documented workflows, random  *)
(* drivers) is a sequence of events - one per public call, logged at its   *)
(* return or raise, with the call's arguments and the projected state      *)
(* (sampling attributes as exact rationals, sample counts, registry with   *)
(* run / mpe flags, and the boolean "data equals the scipy interpretation  *)
(* of the operations logged so far").  The trace is accepted iff every     *)
(* event is explained by the corresponding action of Setup.tla *and* the   *)
(* logged state equals the action's post-state.                            *)
(*                                                                         *)
(* One instance per trace: N0, Fs0 and the operation alphabets come from   *)
(* the trace header, the events from the constant Trace.                   *)
(***************************************************************************)
EXTENDS Setup

CONSTANTS Trace      \* sequence of event records

VARIABLE l           \* index of the next event to explain

tvars == <<vars, l>>

Ev == Trace[l]
IsEv(k) == l <= Len(Trace) /\ Ev.ev = k /\ l' = l + 1

(* the logged state must be the post-state of the action *)
Logged ==
    /\ RatEq(meta'.fs, Ev.fs)
    /\ RatEq(meta'.dt, Ev.dt)
    /\ meta'.ndat = Ev.ndat
    /\ ndat' = Ev.len                                        \* array lengths
    /\ (Ev.t_known \/ \A i \in DOMAIN Ev.T : RatEq(meta'.T[i], Ev.T[i]))   \* t_known: listed finding, set by the harness
    /\ Len(reg') = Len(Ev.reg)
    /\ \A i \in DOMAIN reg' : /\ reg'[i].name = Ev.reg[i].name
                              /\ reg'[i].ran = Ev.reg[i].ran
                              /\ reg'[i].mpe = Ev.reg[i].mpe
    /\ err' = Ev.raised
    /\ Ev.data_ok                                            \* data = scipy interpretation of the logged operations
    /\ Ev.user_ok                                            \* the caller's arrays and the stored initial copy are untouched

TDecimate == IsEv("Decimate") /\ Decimate(<<Ev.q, "default">>) /\ Logged
TDetrend  == IsEv("Detrend")  /\ Detrend("default") /\ Logged
TFilter   == IsEv("Filter")   /\ Filter(Ev.f) /\ Logged
TRollback == IsEv("Rollback") /\ Rollback /\ Logged
TAdd      == IsEv("Add")      /\ Add([name |-> Ev.alg, cls |-> Ev.cls, par |-> Ev.par]) /\ Logged
TRun      == IsEv("RunByName") /\ RunByName(Ev.alg) /\ Logged
TRunAll   == IsEv("RunAll")   /\ RunAll /\ Logged
TMpe      == IsEv("Mpe")      /\ Mpe(Ev.alg) /\ Logged
TSaveLoad == IsEv("SaveLoad") /\ SaveLoad /\ Logged

TInit == Init /\ l = 1
TNext == TDecimate \/ TDetrend \/ TFilter \/ TRollback \/ TAdd \/ TRun \/ TRunAll \/ TMpe \/ TSaveLoad
TSpec == TInit /\ [][TNext]_tvars

(* progress report for the harness: the furthest event index reached, with the abstract state there *)
Reach == PrintT(<<"REACH", l, ToJson([hist |-> hist, qprod |-> qprod, ndat |-> ndat, meta |-> meta, reg |-> reg, err |-> err])>>)
TView == <<View, l>>
=============================================================================
