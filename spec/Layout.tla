------------------------------- MODULE Layout -------------------------------
(***************************************************************************)
(* Who sits where: the reference / roving partition of a setup's channel   *)
(* list and the global sensor order of multi-setup results.  Pure          *)
(* operators, shared by PoserMerge (C02), Split (C03), Spectra (C04),      *)
(* Geo (C19).                                                              *)
(*                                                                         *)
(* A setup layout is a record [chan, ref]:                                 *)
(*   chan : sequence of global sensor ids in local channel order           *)
(*   ref  : sequence of local channel indices (1-based) of the reference   *)
(*          sensors, in listed order (entry j is reference sensor j)       *)
(***************************************************************************)
EXTENDS Integers, Sequences, FiniteSets

Range(s) == {s[i] : i \in DOMAIN s}

(* references in the listed order *)
RefChans(lay) == lay.ref
(* roving channels: the remaining local channels in ascending order *)
MovChans(lay) ==
    LET idx == {c \in 1..Len(lay.chan) : c \notin Range(lay.ref)}
        Sorted[k \in 0..Cardinality(idx)] ==
            IF k = 0 THEN <<>>
            ELSE LET prev == Sorted[k - 1]
                     rest == idx \ Range(prev)
                 IN Append(prev, CHOOSE c \in rest : \A d \in rest : c <= d)
    IN Sorted[Cardinality(idx)]

RefSensors(lay) == [j \in DOMAIN lay.ref |-> lay.chan[lay.ref[j]]]
MovSensors(lay) == LET m == MovChans(lay) IN [j \in DOMAIN m |-> lay.chan[m[j]]]

Concat(ss) == LET F[i \in 0..Len(ss)] == IF i = 0 THEN <<>> ELSE F[i - 1] \o ss[i] IN F[Len(ss)]

(* global order: reference sensors in the first setup's reference order, then each setup's *)
(* roving sensors in setup order                                                           *)
GlobalOrder(lays) == RefSensors(lays[1]) \o Concat([i \in DOMAIN lays |-> MovSensors(lays[i])])

(* row blocks of the per-setup data handed to the PreGER algorithms: <<ref rows, mov rows>> *)
SplitRows(lay) == [ref |-> RefChans(lay), mov |-> MovChans(lay)]

(* well-formedness of a multi-setup layout *)
WellFormed(lays) ==
    /\ \A i \in DOMAIN lays :
          /\ \A a, b \in DOMAIN lays[i].ref : a # b => lays[i].ref[a] # lays[i].ref[b]
          /\ Range(lays[i].ref) \subseteq 1..Len(lays[i].chan)
          /\ Len(lays[i].ref) = Len(lays[1].ref)
          /\ RefSensors(lays[i]) = RefSensors(lays[1])       \* the same physical reference sensors, same listed order
    /\ \A i, j \in DOMAIN lays : i # j => Range(MovSensors(lays[i])) \cap Range(MovSensors(lays[j])) = {}

-----------------------------------------------------------------------------
(* enumeration of multi-setup layouts: nref reference sensors (global ids 1..nref) shared by all      *)
(* setups, cnt[i] roving sensors in setup i (global ids follow the references, setup by setup); every   *)
(* arrangement of a setup's sensors in its local channel list                                           *)
Perms(S) == {p \in [1..Cardinality(S) -> S] : \A a, b \in 1..Cardinality(S) : a # b => p[a] # p[b]}

SetupLayouts(nref, rov) ==
    LET sensors == (1..nref) \cup rov
    IN {[chan |-> p, ref |-> [j \in 1..nref |-> CHOOSE c \in DOMAIN p : p[c] = j]] : p \in Perms(sensors)}

RovIds(nref, cnt, i) ==
    LET before == LET F[m \in 0..(i - 1)] == IF m = 0 THEN 0 ELSE F[m - 1] + cnt[m] IN F[i - 1]
    IN {nref + before + r : r \in 1..cnt[i]}

AllLayouts(nref, cnt) ==
    {l \in [1..Len(cnt) -> UNION {SetupLayouts(nref, RovIds(nref, cnt, i)) : i \in 1..Len(cnt)}] :
        \A i \in 1..Len(cnt) : l[i] \in SetupLayouts(nref, RovIds(nref, cnt, i))}
=============================================================================
