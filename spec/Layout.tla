------------------------------- MODULE Layout -------------------------------
(***************************************************************************)
(* Who sits where: the reference / roving partition of a setup's channel   *)
(* list and the global sensor order of multi-setup results.  Pure          *)
(* operators, shared by PoserMerge (C02), Split (C03), Spectra (C04),      *)
(* Geo (C19).                                                              *)
(*                                                                         *)
(* A setup layout is a record [chan, ref]:                                 *)
(*   chan : sequence of global sensor ids in local channel order           *)
(*   ref  : sequence of local channel indices (1-based) of the reference   *)
(*          sensors, in listed order (entry j is reference sensor j)       *)
(***************************************************************************)
EXTENDS Integers, Sequences, FiniteSets

Range(s) == {s[i] : i \in DOMAIN s}

(* references in the listed order *)
RefChans(lay) == lay.ref
(* roving channels: the remaining local channels in ascending order *)
MovChans(lay) ==
    LET idx == {c \in 1..Len(lay.chan) : c \notin Range(lay.ref)}
        Sorted[k \in 0..Cardinality(idx)] ==
            IF k = 0 THEN <<>>
            ELSE LET prev == Sorted[k - 1]
                     rest == idx \ Range(prev)
                 IN Append(prev, CHOOSE c \in rest : \A d \in rest : c <= d)
    IN Sorted[Cardinality(idx)]

RefSensors(lay) == [j \in DOMAIN lay.ref |-> lay.chan[lay.ref[j]]]
MovSensors(lay) == LET m == MovChans(lay) IN [j \in DOMAIN m |-> lay.chan[m[j]]]

Concat(ss) == LET F[i \in 0..Len(ss)] == IF i = 0 THEN <<>> ELSE F[i - 1] \o ss[i] IN F[Len(ss)]

(* global order: reference sensors in the first setup's reference order, then each setup's *)
(* roving sensors in setup order                                                           *)
GlobalOrder(lays) == RefSensors(lays[1]) \o Concat([i \in DOMAIN lays |-> MovSensors(lays[i])])

(* row blocks of the per-setup data handed to the PreGER algorithms: <<ref rows, mov rows>> *)
SplitRows(lay) == [ref |-> RefChans(lay), mov |-> MovChans(lay)]

(* well-formedness of a multi-setup layout *)
WellFormed(lays) ==
    /\ \A i \in DOMAIN lays :
          /\ \A a, b \in DOMAIN lays[i].ref : a # b => lays[i].ref[a] # lays[i].ref[b]
          /\ Range(lays[i].ref) \subseteq 1..Len(lays[i].chan)
          /\ Len(lays[i].ref) = Len(lays[1].ref)
          /\ RefSensors(lays[i]) = RefSensors(lays[1])       \* the same physical reference sensors, same listed order
    /\ \A i, j \in DOMAIN lays : i # j => Range(MovSensors(lays[i])) \cap Range(MovSensors(lays[j])) = {}
=============================================================================
