------------------------------ MODULE Transform -----------------------------
(***************************************************************************)
(* The algebra of covariance (C08): words of transformations of a data set *)
(*   Gain(g)      multiply all data by g                                   *)
(*   Permute(p)   new channel j is old channel p[j]                        *)
(*   Mix(q)       mix the channels with the orthogonal matrix of id q      *)
(*   TimeUnit(k)  declare the same samples at k times the sampling rate    *)
(* and the relation they induce between two identification results:        *)
(*   Fn' = k Fn,  Xi' = Xi,  Phi' = Normalise(M Phi)  with M the composite *)
(*   channel map, reference indices mapped through the permutation.        *)
(* The specification composes the transformations exactly (rationals,      *)
(* permutations) and proves that composing step by step equals the         *)
(* composite - the fact the harness relies on when it checks a whole word  *)
(* with one comparison.                                                    *)
(***************************************************************************)
EXTENDS Integers, Sequences, FiniteSets, TLC, Json

CONSTANTS
    NChan,
    Gains,      \* set of scalars <<mantissa, exponent>> = mantissa * 10^exponent (non-zero, either sign; 32-bit safe)
    PermSet,    \* set of permutations of 1..NChan (sequences)
    MixIds,     \* ids of orthogonal matrices (harness)
    Units,      \* set of positive scalars <<mantissa, exponent>>
    Refs,       \* reference index list of the base run (sequence over 1..NChan, possibly empty = all channels)
    MaxWord

VARIABLES word, comp, act
vars == <<word, comp, act>>
View == <<word, comp>>

RatMul(a, b) == <<a[1] * b[1], a[2] + b[2]>>       \* (m1 10^e1)(m2 10^e2) = m1 m2 10^(e1 + e2)
RatEq(a, b) == a = b                                \* canonical as long as no mantissa is a multiple of 10
Id == [j \in 1..NChan |-> j]
(* apply p, then q: new channel j is old channel p[q[j]] *)
Then(p, q) == [j \in 1..NChan |-> p[q[j]]]
Inv(p) == [c \in 1..NChan |-> CHOOSE j \in 1..NChan : p[j] = c]
(* reference list after the permutation: the same physical channels, in the listed order *)
MapRefs(p, refs) == [i \in DOMAIN refs |-> Inv(p)[refs[i]]]

Init ==
    /\ word = <<>>
    /\ comp = [g |-> <<1, 0>>, k |-> <<1, 0>>, perm |-> Id, mixed |-> FALSE, refs |-> Refs]
    /\ act = [name |-> "Init"]

Step == Len(word) < MaxWord

Gain(g) == /\ Step /\ word' = Append(word, <<"gain", g>>)
           /\ comp' = [comp EXCEPT !.g = RatMul(comp.g, g)]
           /\ act' = [name |-> "Gain", g |-> g]
Permute(p) == /\ Step /\ ~comp.mixed                       \* (a permutation after a mixing is kept in the word only)
              /\ word' = Append(word, <<"perm", p>>)
              /\ comp' = [comp EXCEPT !.perm = Then(comp.perm, p), !.refs = MapRefs(p, comp.refs)]
              /\ act' = [name |-> "Permute", p |-> p]
Mix(q) == /\ Step /\ Refs = <<>>                           \* mixing all channels needs every channel to be a reference
          /\ word' = Append(word, <<"mix", q>>)
          /\ comp' = [comp EXCEPT !.mixed = TRUE]
          /\ act' = [name |-> "Mix", q |-> q]
TimeUnit(k) == /\ Step /\ word' = Append(word, <<"unit", k>>)
               /\ comp' = [comp EXCEPT !.k = RatMul(comp.k, k)]
               /\ act' = [name |-> "TimeUnit", k |-> k]

Next == \/ \E g \in Gains : Gain(g)
        \/ \E p \in PermSet : Permute(p)
        \/ \E q \in MixIds : Mix(q)
        \/ \E k \in Units : TimeUnit(k)
Spec == Init /\ [][Next]_vars

-----------------------------------------------------------------------------
(* the composite recomputed from the word *)
FoldG == LET F[i \in 0..Len(word)] == IF i = 0 THEN <<1, 0>>
                                      ELSE IF word[i][1] = "gain" THEN RatMul(F[i-1], word[i][2]) ELSE F[i-1]
         IN F[Len(word)]
FoldK == LET F[i \in 0..Len(word)] == IF i = 0 THEN <<1, 0>>
                                      ELSE IF word[i][1] = "unit" THEN RatMul(F[i-1], word[i][2]) ELSE F[i-1]
         IN F[Len(word)]
FoldP == LET F[i \in 0..Len(word)] == IF i = 0 THEN Id
                                      ELSE IF word[i][1] = "perm" THEN Then(F[i-1], word[i][2]) ELSE F[i-1]
         IN F[Len(word)]
Homomorphism == RatEq(comp.g, FoldG) /\ RatEq(comp.k, FoldK) /\ (~comp.mixed => comp.perm = FoldP)
GainNonZero == comp.g[1] # 0
UnitPositive == comp.k[1] > 0
PermIsPermutation == \A a, b \in 1..NChan : a # b => comp.perm[a] # comp.perm[b]
InverseUndoes == \A p \in PermSet : Then(p, Inv(p)) = Id /\ Then(Inv(p), p) = Id
RefsFollowChannels == ~comp.mixed => \A i \in DOMAIN Refs : comp.perm[comp.refs[i]] = Refs[i]
AssocOnPerms == \A p, q, r \in PermSet : Then(Then(p, q), r) = Then(p, Then(q, r))

Emit == PrintT(<<"TR", ToJson([word |-> word', comp |-> comp'])>>)
=============================================================================
