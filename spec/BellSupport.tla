---------------------------- MODULE BellSupport ----------------------------
(***************************************************************************)
(* The discrete part of the EFDD / FSDD second stage (fdd.SDOF_bellandMS): *)
(* which frequency lines enter the single-mode spectral bell.              *)
(*                                                                         *)
(* Lines are 0 .. NL-1.  Positions (selected frequency, band half-width)   *)
(* are integers in quarter lines, so line l sits at 4 l.  A line enters    *)
(* the bell iff it lies in the half-open index range                       *)
(*      [ nearest(sel - DF), nearest(sel + DF) )                           *)
(* - `nearest` being the first line at minimal distance, as numpy.argmin   *)
(* resolves ties - and the dominant singular vector of the spectral matrix *)
(* at that line has MAC above the limit with the first-stage shape.  The   *)
(* bell is zero at every other line of the grid.                           *)
(*                                                                         *)
(* `Dominant[l]` says whether the mode's own shape dominates line l (MAC   *)
(* 1) or an orthogonal shape does (MAC 0); the harness builds rank-two     *)
(* spectral matrices accordingly.  Extra behaviour coverage: C07 speaks    *)
(* about the accuracy of the estimates, not about this rule; deviations    *)
(* are observations (harness/extras/bell.py).                              *)
(***************************************************************************)
EXTENDS Integers, Sequences, FiniteSets, TLC, Json

CONSTANTS NL, Sels, DFs, Patterns, Methods

VARIABLES cfg, out, act
vars == <<cfg, out, act>>
View == <<cfg, out>>

Lines == 0..(NL - 1)
Abs(x) == IF x < 0 THEN -x ELSE x
(* first line at minimal distance from position p (quarter lines) *)
Nearest(p) == CHOOSE l \in Lines : /\ \A k \in Lines : Abs(4 * l - p) <= Abs(4 * k - p)
                                   /\ \A k \in Lines : (Abs(4 * k - p) = Abs(4 * l - p)) => l <= k
Lo(c) == Nearest(c.sel - c.df)
Hi(c) == Nearest(c.sel + c.df)
InBand(c, l) == Lo(c) <= l /\ l < Hi(c)
Support(c) == {l \in Lines : InBand(c, l) /\ c.dom[l + 1]}

(* a band limit exactly halfway between two lines is not enumerated: the winner of that tie is decided by rounding *)
Halfway(p) == p % 4 = 2
Init == /\ cfg \in {c \in [sel : Sels, df : DFs, dom : Patterns, method : Methods] : ~Halfway(c.sel - c.df) /\ ~Halfway(c.sel + c.df)}
        /\ out = <<>> /\ act = [name |-> "Init"]

BuildBell ==
    /\ out = <<>>
    /\ out' = [lo |-> Lo(cfg), hi |-> Hi(cfg), support |-> [l \in Lines |-> l \in Support(cfg)]]
    /\ UNCHANGED cfg
    /\ act' = [name |-> "BuildBell"]

Next == BuildBell
Spec == Init /\ [][Next]_vars

Done == out # <<>>
ZeroOutsideBand == Done => \A l \in Lines : out.support[l] => (out.lo <= l /\ l < out.hi)
OnlyDominantLines == Done => \A l \in Lines : out.support[l] => cfg.dom[l + 1]
BandIsAnInterval == Done => out.lo <= out.hi
WholeBandWhenAllDominant == Done => ((\A l \in Lines : cfg.dom[l + 1]) => \A l \in Lines : (out.lo <= l /\ l < out.hi) => out.support[l])

Emit == PrintT(<<"TR", ToJson([cfg |-> cfg, out |-> out'])>>)
=============================================================================
