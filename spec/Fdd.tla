-------------------------------- MODULE Fdd ---------------------------------
(***************************************************************************)
(* Frequency-domain side of pyOMA2: the frequency grid, the band around a  *)
(* selected frequency and the dominant line in it (C06), the ordering of   *)
(* stored singular values / vectors (C06), and the singular-value plot     *)
(* (C20).  Spectral estimation structure (C13) and PreGER merging (C04)    *)
(* live in Spectra.tla.                                                    *)
(*                                                                         *)
(* Positions are in quarter-line units: grid line k (k = 0..NL-1) sits at  *)
(* 4k; a selected frequency and a half-width DF are integers in the same   *)
(* unit.  A singular-value table gives <<s1, s2, s3>> per line.            *)
(***************************************************************************)
EXTENDS Integers, Sequences, FiniteSets, TLC, Json

CONSTANTS
    NL,        \* number of grid lines
    SvTables,  \* set of singular-value tables: [1..NL -> <<s1, s2, ...>>] (line k is index k+1)
    Sels,      \* selected frequencies (quarter-line units)
    DFs,       \* band half-widths (quarter-line units, >= 4 = one line spacing)
    NCurves,   \* set of requested curve counts for the singular-value plot (0 = "all")
    Perms,     \* set of permutations (sequences) for the decomposition clause
    Focus      \* "pick" | "cmif" | "decomp"

VARIABLES sv, req, out, stage, act
vars == <<sv, req, out, stage, act>>
View == <<sv, req, out, stage>>

Abs(x) == IF x < 0 THEN -x ELSE x
Lines == 0..(NL - 1)
Pos(k) == 4 * k
S1(k) == sv[k + 1][1]
S2(k) == sv[k + 1][2]
(* ratio of line k >= ratio of line j, by cross-multiplication *)
RatioGE(k, j) == S1(k) * S2(j) >= S1(j) * S2(k)

-----------------------------------------------------------------------------
(* C06 - dominant line in the band.                                         *)
(* The property does not say whether a line within one spacing of a band    *)
(* limit is "in the band": every interval of lines between the narrowest    *)
(* reading (lines within DF - spacing) and the widest one (within DF +      *)
(* spacing) is a reading.  A line is an admissible answer iff it is a       *)
(* maximiser of the ratio over some reading.                                *)
Narrow(s, df) == {k \in Lines : Abs(Pos(k) - s) <= df - 4}
Wide(s, df)   == {k \in Lines : Abs(Pos(k) - s) <= df + 4}
Hull(S) == IF S = {} THEN {} ELSE {k \in Lines : \E a, b \in S : a <= k /\ k <= b}
AdmLines(s, df) ==
    {k \in Wide(s, df) : \A j \in Hull(Narrow(s, df) \cup {k}) : RatioGE(k, j)}
(* Named deviation of the implementation (listed as a known finding, not part of the property): when   *)
(* the upper band limit reaches the end of the grid, the last (Nyquist) line is never a candidate.       *)
LinesT == 0..(NL - 2)
AdmLinesTrunc(s, df) ==
    LET N == Narrow(s, df) \cap LinesT
        W == Wide(s, df) \cap LinesT
    IN IF s + df < Pos(NL - 1) THEN {}
       ELSE {k \in W : \A j \in Hull(N \cup {k}) : RatioGE(k, j)}
(* the verdict is sharp when the maximiser over the widest reading is unique and lies in the narrowest *)
Sharp(s, df) == \E k \in Narrow(s, df) : \A j \in Wide(s, df) \ {k} : RatioGE(k, j) /\ ~RatioGE(j, k)

Pick(s, df) ==
    /\ stage = "table" /\ Focus = "pick"
    /\ req' = [sel |-> s, df |-> df]
    /\ out' = [lines |-> AdmLines(s, df), sharp |-> Sharp(s, df), trunc |-> AdmLinesTrunc(s, df)]
    /\ stage' = "picked"
    /\ UNCHANGED sv
    /\ act' = [name |-> "Pick", sel |-> s, df |-> df]

-----------------------------------------------------------------------------
(* C20 - singular-value plot: curve i (1-based) over the whole grid, level of  *)
(* s_i relative to the maximum of s_1, as exact ratios <<num, den>> (the dB   *)
(* value is 10 log10 of it).                                                  *)
MaxS1 == CHOOSE m \in {S1(k) : k \in Lines} : \A k \in Lines : S1(k) <= m
NSv == Len(sv[1])
DrawCMIF(n) ==
    /\ stage = "table" /\ Focus = "cmif"
    /\ LET cnt == IF n = 0 THEN NSv ELSE n
       IN out' = [curves |-> [i \in 1..cnt |-> [k \in 1..NL |-> <<sv[k][i], MaxS1>>]]]
    /\ req' = [n |-> n]
    /\ stage' = "drawn"
    /\ UNCHANGED sv
    /\ act' = [name |-> "DrawCMIF", n |-> n]

-----------------------------------------------------------------------------
(* C06 - decomposition: for a spectral matrix P diag(d) P^T (d = first entry of   *)
(* sv at each line, distinct per line) the stored values are d sorted             *)
(* non-increasing and vector i is the unit vector of the channel that carries     *)
(* the i-th largest value.                                                        *)
SortDesc(d) ==   \* indices of d ordered by decreasing value (d injective)
    [i \in 1..Len(d) |-> CHOOSE j \in 1..Len(d) : Cardinality({m \in 1..Len(d) : d[m] > d[j]}) = i - 1]
Decompose(p) ==
    /\ stage = "table" /\ Focus = "decomp"
    /\ out' = [order |-> [k \in 1..NL |-> LET idx == SortDesc(sv[k]) IN [i \in 1..Len(idx) |-> p[idx[i]]]],
               vals  |-> [k \in 1..NL |-> LET idx == SortDesc(sv[k]) IN [i \in 1..Len(idx) |-> sv[k][idx[i]]]]]
    /\ req' = [perm |-> p]
    /\ stage' = "decomposed"
    /\ UNCHANGED sv
    /\ act' = [name |-> "Decompose", perm |-> p]

-----------------------------------------------------------------------------
Init == /\ sv \in SvTables /\ req = <<>> /\ out = <<>> /\ stage = "table" /\ act = [name |-> "Init"]
Next == \/ \E s \in Sels, df \in DFs : Pick(s, df)
        \/ \E n \in NCurves : DrawCMIF(n)
        \/ \E p \in Perms : Decompose(p)
Spec == Init /\ [][Next]_vars

(* C06 *)
PickInBand == stage = "picked" => \A k \in out.lines : Abs(Pos(k) - req.sel) <= req.df + 4
PickIsArgmax == stage = "picked" =>
    \A k \in out.lines : \A j \in Narrow(req.sel, req.df) : RatioGE(k, j)
SharpIsUnique == (stage = "picked" /\ out.sharp) => Cardinality(out.lines) = 1
SomeAnswer == (stage = "picked" /\ Wide(req.sel, req.df) # {}) => out.lines # {}
ValuesNonIncreasing == stage = "decomposed" =>
    \A k \in 1..NL : \A i \in 1..(Len(out.vals[k]) - 1) : out.vals[k][i] >= out.vals[k][i + 1]
(* C20 *)
CurvesExact == stage = "drawn" =>
    /\ Len(out.curves) = (IF req.n = 0 THEN NSv ELSE req.n)
    /\ \A i \in DOMAIN out.curves : Len(out.curves[i]) = NL
    /\ \E k \in 1..NL : out.curves[1][k][1] = out.curves[1][k][2]      \* the first curve touches 0 dB

Emit == PrintT(<<"TR", ToJson([sv |-> sv, act |-> act', out |-> out'])>>)
=============================================================================
