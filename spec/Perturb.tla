------------------------------- MODULE Perturb ------------------------------
(***************************************************************************)
(* C17, first sentence: the variance reported for a natural frequency is   *)
(* the first-order propagation of the Hankel covariance factor.            *)
(*                                                                         *)
(* What the specification contributes                                      *)
(*   - the vectorisation: column k of the factor is the column-stacked     *)
(*     image of a perturbation direction dH_k of the Hankel matrix, i.e.    *)
(*     dH_k[R][C] = T[C * rows + R][k]   (Unvec is the inverse of VecCol)   *)
(*   - the aggregation: Var(order n, pole j) = SUM_k D(k, n, j)^2, one      *)
(*     column => one square                                                *)
(*   - the enumeration of shapes, orders and column counts.                 *)
(* What it cannot contribute (delegated to the harness, weakest binding):  *)
(*   the directional derivative D(k, n, j) itself - obtained by central     *)
(*   finite differences of the library's own identification.               *)
(***************************************************************************)
EXTENDS Integers, Sequences, FiniteSets, TLC, Json

CONSTANTS Shapes      \* set of [l, r, br, m, ncols, kind, cut]  (m modes -> rank 2m; kind "exact" | "data";
                      \*  cut: the identification is truncated at order 2 (m - cut), below the rank when cut > 0)

VARIABLES sh, out, act
vars == <<sh, out, act>>
View == <<sh, out>>

Rows(s) == (s.br + 1) * s.l
Cols(s) == (s.br + 1) * s.r
VecCol(s, R, C) == C * Rows(s) + R
UnvecR(s, p) == p % Rows(s)
UnvecC(s, p) == p \div Rows(s)

Init == sh \in Shapes /\ out = <<>> /\ act = [name |-> "Init"]

Perturb ==
    /\ out = <<>>
    /\ out' = [rows |-> Rows(sh), cols |-> Cols(sh),
               ordmax |-> 2 * (sh.m - sh.cut),
               orders |-> {n \in 2..(2 * (sh.m - sh.cut)) : n % 2 = 0},      \* even orders up to the truncation order
               aggregate |-> "sum_of_squares_over_columns",
               ncols |-> sh.ncols]
    /\ UNCHANGED sh
    /\ act' = [name |-> "Perturb"]

Next == Perturb
Spec == Init /\ [][Next]_vars

UnvecInvertsVec ==
    \A R \in 0..(Rows(sh) - 1) : \A C \in 0..(Cols(sh) - 1) :
        UnvecR(sh, VecCol(sh, R, C)) = R /\ UnvecC(sh, VecCol(sh, R, C)) = C
VecCoversVector ==
    {VecCol(sh, R, C) : R \in 0..(Rows(sh) - 1), C \in 0..(Cols(sh) - 1)} = 0..(Rows(sh) * Cols(sh) - 1)
OrdersWithinRank == out # <<>> => \A n \in out.orders : n <= 2 * sh.m /\ n <= Cols(sh)

Emit == PrintT(<<"TR", ToJson([sh |-> sh, out |-> out'])>>)
=============================================================================
