------------------------------ MODULE TracePick -----------------------------
(***************************************************************************)
(* Conformance direction B for Pick.tla: a recorded run of the real dialog *)
(* (one event per handler call, logged at its return: event name and       *)
(* arguments, the selection as a sorted list of <<frequency, order>> pairs *)
(* read from the dialog's parallel lists, and the modifier flag) is        *)
(* accepted iff every event is explained by the corresponding action of    *)
(* Pick.tla and the logged state equals the action's post-state.           *)
(***************************************************************************)
EXTENDS Pick

CONSTANTS Trace

VARIABLE l
tvars == <<vars, l>>

Ev == Trace[l]
IsEv(k) == l <= Len(Trace) /\ Ev.ev = k /\ l' = l + 1
Logged == sel' = Ev.sel /\ shift' = Ev.shift

TKeyPress   == IsEv("KeyPress")   /\ KeyPress(Ev.key) /\ Logged
TKeyRelease == IsEv("KeyRelease") /\ KeyRelease(Ev.key) /\ Logged
TClick      == IsEv("Click")      /\ Click(Ev.b, Ev.x, Ev.y) /\ Logged

TInit == Init /\ l = 1
TNext == TKeyPress \/ TKeyRelease \/ TClick
TSpec == TInit /\ [][TNext]_tvars

Reach == PrintT(<<"REACH", l, ToJson([sel |-> sel, shift |-> shift])>>)
TView == <<View, l>>
=============================================================================
