-------------------------------- MODULE Bell --------------------------------
(***************************************************************************)
(* Second stage of EFDD / FSDD on an exact single-mode spectral bell (C07). *)
(*                                                                         *)
(* TLC cannot compute an inverse FFT or a curve fit; what the specification *)
(* owns is the *claim domain* and the *experiment plan*:                    *)
(*   - a configuration is a mode (fn / fs and damping in per mille), a     *)
(*     frequency grid (segment length), a channel count with a catalogue   *)
(*     shape, a method, an analysis band in half-power bandwidths and a    *)
(*     sampling-rate id;                                                   *)
(*   - InClaim decides, in exact integer arithmetic on units of            *)
(*     fs * 10^-6, whether the property's preconditions hold: the bell is  *)
(*     resolved (half-power bandwidth >= MinLines lines), the half record  *)
(*     holds MinPeriods periods and the extrema the fit uses, the analysis *)
(*     band covers MinBandMult bandwidths and stays inside the grid;       *)
(*   - the behaviours are  Estimate -> Scale(g) -> Estimate : the first    *)
(*     estimate must be within the property's tolerances of the truth, the *)
(*     estimate after multiplying the whole spectral matrix by a positive  *)
(*     constant must equal the first one.                                  *)
(* The numbers themselves are delegated to the conformance layer, which    *)
(* builds the analytic spectral matrix of every enumerated configuration   *)
(* and runs the real fdd.EFDD_mpe and the EFDD / FSDD classes on it.       *)
(***************************************************************************)
EXTENDS Naturals, Integers, Sequences, FiniteSets, TLC, Json

CONSTANTS
    FnPermille,    \* set of fn / fs in per mille            (property: 40..250)
    XiPermille,    \* set of damping ratios in per mille     (property: 20..50)
    NxSegs,        \* set of segment lengths                 (property: 1024..8192)
    Chans,         \* set of channel counts                  (property: 2..6)
    Methods,       \* subset of {"EFDD", "FSDD"}
    BandMult,      \* set of analysis half-widths DF2 in half-power bandwidths
    FsIds,         \* ids of sampling rates (harness)
    Gains,         \* ids of positive constants (harness); 0 is the unit gain and is not a member
    Sppk, Npmax,   \* extrema skipped / used by the fit (library defaults 3 and 20)
    MinLines, MinPeriods, MinBandMult     \* the property's thresholds: 4, 30, 4

VARIABLES cfg, gain, est, act
vars == <<cfg, gain, est, act>>
View == <<cfg, gain, est>>

(* all frequencies in units of fs * 10^-6 *)
Fn(c) == c.fn * 1000
Bandwidth(c) == 2 * c.xi * c.fn                        \* half-power bandwidth 2 xi fn
LinesInBandwidth(c) == (Bandwidth(c) * c.nxseg) \div 1000000
PeriodsInHalfRecord(c) == (c.fn * c.nxseg) \div 2000   \* fn * (nxseg / 2) / fs
ExtremaInHalfRecord(c) == 2 * PeriodsInHalfRecord(c)
DF2(c) == c.mult * Bandwidth(c)
LineSpacingTimesNx == 1000000                          \* (fs / nxseg) * nxseg

Configs == [fn : FnPermille, xi : XiPermille, nxseg : NxSegs, nch : Chans, method : Methods, mult : BandMult, fs : FsIds]

Resolved(c) == LinesInBandwidth(c) >= MinLines
EnoughPeriods(c) == PeriodsInHalfRecord(c) >= MinPeriods
EnoughExtrema(c) == ExtremaInHalfRecord(c) >= Sppk + Npmax + 1
BandCovers(c) == c.mult >= MinBandMult
BandInsideGrid(c) == /\ (Fn(c) - DF2(c)) * c.nxseg >= LineSpacingTimesNx     \* lower edge at or above the first line
                     /\ Fn(c) + DF2(c) <= 500000                             \* upper edge at or below the Nyquist line
InClaim(c) == Resolved(c) /\ EnoughPeriods(c) /\ EnoughExtrema(c) /\ BandCovers(c) /\ BandInsideGrid(c)

Init == /\ cfg \in {c \in Configs : InClaim(c)}
        /\ gain = 0 /\ est = <<>> /\ act = [name |-> "Init"]

(* what the estimate must satisfy *)
Estimate ==
    /\ est = <<>>
    /\ est' = [fn_tol_permille |-> 25, xi_tol_permille |-> 150, mac_min_permille |-> 999,
               lines_in_bandwidth |-> LinesInBandwidth(cfg), periods |-> PeriodsInHalfRecord(cfg),
               same_as_unit_gain |-> gain # 0]
    /\ UNCHANGED <<cfg, gain>>
    /\ act' = [name |-> "Estimate"]

Scale(g) ==
    /\ est # <<>> /\ gain = 0
    /\ gain' = g /\ est' = <<>>
    /\ UNCHANGED cfg
    /\ act' = [name |-> "Scale", g |-> g]

Next == Estimate \/ \E g \in Gains : Scale(g)
Spec == Init /\ [][Next]_vars

(* invariants: the enumerated configurations are exactly inside the property's quantifier *)
ClaimResolved == LinesInBandwidth(cfg) >= MinLines
ClaimPeriods == PeriodsInHalfRecord(cfg) >= MinPeriods
ClaimExtrema == ExtremaInHalfRecord(cfg) > Sppk + Npmax
ClaimBand == cfg.mult >= MinBandMult /\ Fn(cfg) > DF2(cfg) /\ Fn(cfg) + DF2(cfg) <= 500000
ClaimRanges == cfg.fn \in 40..250 /\ cfg.xi \in 20..50 /\ cfg.nxseg \in 1024..8192 /\ cfg.nch \in 2..6
ScaledOnlyAfterUnit == gain # 0 => gain \in Gains
(* the tolerances never depend on the gain: scaling the spectrum changes nothing that is judged *)
GainFree == [][est' # <<>> => (est'.fn_tol_permille = 25 /\ est'.xi_tol_permille = 150 /\ est'.mac_min_permille = 999)]_vars

Emit == PrintT(<<"TR", ToJson([cfg |-> cfg, gain |-> gain', act |-> act', est |-> est'])>>)
=============================================================================
