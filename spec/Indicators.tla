----------------------------- MODULE Indicators -----------------------------
(***************************************************************************)
(* Mode-shape indicators (C18): MAC, MPC, MPD, MCF, MSF as relations.      *)
(*                                                                         *)
(* Shapes are vectors of Gaussian integers <<re, im>>.  The specification  *)
(* computes MAC exactly as a rational and proves, on every enumerated      *)
(* case, the facts the harness then demands of the library:                *)
(*   bounds, shape of the MAC matrix and symmetry under transposition,     *)
(*   invariance under Scale(c) for Gaussian-integer c, exact values on     *)
(*   collinear seeds.  Scale factors outside TLC's integer range (1e-6,    *)
(*   1e6, (3-i)1e3) are ids whose meaning is fixed in the harness: the     *)
(*   prediction for them is the same relation "unchanged".                 *)
(***************************************************************************)
EXTENDS Integers, Sequences, FiniteSets, TLC, Json

CONSTANTS
    Comps,      \* set of Gaussian integers <<re, im>> a component may take
    Dims,       \* set of vector lengths
    RealSeeds,  \* set of real integer vectors (sequences of integers) for the collinear clause
    GScales,    \* set of Gaussian-integer scale factors <<re, im>> (non-zero)
    ScaleIds,   \* ids of further scale factors interpreted by the harness
    Focus       \* "pair" | "single" | "collinear"

VARIABLES x, y, c, out, act
vars == <<x, y, c, out, act>>
View == <<x, y, c, out>>

Zero(v) == \A k \in DOMAIN v : v[k] = <<0, 0>>
CMul(a, b) == <<a[1] * b[1] - a[2] * b[2], a[1] * b[2] + a[2] * b[1]>>
Scale(s, v) == [k \in DOMAIN v |-> CMul(s, v[k])]
Dot(a, b) ==   \* conj(a) . b
    LET S[k \in 0..Len(a)] ==
          IF k = 0 THEN <<0, 0>>
          ELSE <<S[k-1][1] + a[k][1] * b[k][1] + a[k][2] * b[k][2],
                 S[k-1][2] + a[k][1] * b[k][2] - a[k][2] * b[k][1]>>
    IN S[Len(a)]
Norm2(a) == Dot(a, a)[1]
MAC(a, b) == LET d == Dot(a, b) IN <<d[1] * d[1] + d[2] * d[2], Norm2(a) * Norm2(b)>>
RatEq(p, q) == p[1] * q[2] = q[1] * p[2]

Vectors(n) == {v \in [1..n -> Comps] : ~Zero(v)}
AsComplex(v) == [k \in DOMAIN v |-> <<v[k], 0>>]

Init ==
    /\ out = <<>> /\ act = [name |-> "Init"]
    /\ CASE Focus = "pair" ->
              \E n \in Dims : x \in Vectors(n) /\ y \in Vectors(n) /\ c \in GScales
         [] Focus = "single" ->
              \E n \in Dims : x \in Vectors(n) /\ y = x /\ c \in GScales
         [] Focus = "collinear" ->
              \E v \in RealSeeds : y = AsComplex(v) /\ c \in GScales /\ x = Scale(c, AsComplex(v))

Evaluate ==
    /\ out = <<>>
    /\ out' = [mac |-> MAC(x, y),
               mac_scaled |-> MAC(Scale(c, x), y),
               relation |-> "unchanged_under_scale",
               scale_ids |-> ScaleIds,
               collinear |-> (Focus = "collinear")]
    /\ UNCHANGED <<x, y, c>>
    /\ act' = [name |-> "Evaluate"]

Next == Evaluate
Spec == Init /\ [][Next]_vars

Done == out # <<>>
MacBounded == Done => out.mac[1] >= 0 /\ out.mac[1] <= out.mac[2] /\ out.mac[2] > 0
MacSymmetric == RatEq(MAC(x, y), MAC(y, x))
MacScaleInvariant == Done => RatEq(out.mac, out.mac_scaled)
MacCollinearIsOne == (Done /\ out.collinear) => out.mac[1] = out.mac[2]
MacSelfIsOne == RatEq(MAC(x, x), <<1, 1>>)

Emit == PrintT(<<"TR", ToJson([x |-> x, y |-> y, c |-> c, out |-> out'])>>)
=============================================================================
