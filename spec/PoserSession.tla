---------------------------- MODULE PoserSession ----------------------------
(***************************************************************************)
(* Life of a MultiSetup_PoSER object after its constructor accepted the    *)
(* setups (the constructor's decision table is Poser.tla, the merge itself *)
(* PoserMerge.tla): reading `result` before / after merge_results,         *)
(* re-assigning `setups`, defining geometries and plotting merged mode     *)
(* shapes.  Extra behaviour coverage (no listed property quantifies over   *)
(* these calls); replayed by harness/extras/poser.py, deviations are       *)
(* observations.                                                           *)
(*                                                                         *)
(* `equal` says whether every setup extracted the same number of modes;    *)
(* with unequal counts merge_results cannot stack the per-setup results    *)
(* and raises, leaving the object unmerged.  `damped` says whether every   *)
(* algorithm class reports damping ratios: merge_results reads `Xi` of     *)
(* every result, so a plain FDD (no damping) ends in AttributeError - a    *)
(* named deviation (PoSER accepts FDD setups in its constructor).          *)
(***************************************************************************)
EXTENDS Naturals, Sequences, FiniteSets, TLC, Json

CONSTANTS
    AlgNames,   \* the names given to the constructor (keys of the merged result)
    Lookups,    \* names used to index the merged result (may include unknown ones)
    EqualModes, \* set of BOOLEAN: do all setups hold the same number of modes
    Damped,     \* set of BOOLEAN: do all algorithm classes report damping ratios
    MaxLen

VARIABLES equal, damped, merged, geo, out, len, act
vars == <<equal, damped, merged, geo, out, len, act>>
View == <<equal, damped, merged, geo, len>>

Init == /\ equal \in EqualModes /\ damped \in Damped /\ merged = FALSE /\ geo = [g1 |-> FALSE, g2 |-> FALSE]
        /\ out = "ok" /\ len = 0 /\ act = [name |-> "Init"]
Step == len < MaxLen /\ len' = len + 1
Defined(k) == IF k = 1 THEN geo.g1 ELSE geo.g2

Merge ==
    /\ Step
    /\ IF ~damped THEN merged' = merged /\ out' = "AttributeError"          \* deviation UndampedClass
       ELSE IF ~equal THEN merged' = merged /\ out' = "ValueError"
       ELSE merged' = TRUE /\ out' = "ok"
    /\ UNCHANGED <<equal, damped, geo>>
    /\ act' = [name |-> "Merge"]

(* poser.result[name] *)
ReadResult(n) ==
    /\ Step /\ UNCHANGED <<equal, damped, merged, geo>>
    /\ out' = IF ~merged THEN "ValueError" ELSE IF n \notin AlgNames THEN "KeyError" ELSE "ok"
    /\ act' = [name |-> "ReadResult", alg |-> n]

(* poser.setups = [...] is refused after construction *)
SetSetups ==
    /\ Step /\ UNCHANGED <<equal, damped, merged, geo>>
    /\ out' = "AttributeError"
    /\ act' = [name |-> "SetSetups"]

DefGeo(k) ==
    /\ Step
    /\ geo' = IF k = 1 THEN [geo EXCEPT !.g1 = TRUE] ELSE [geo EXCEPT !.g2 = TRUE]
    /\ out' = "ok" /\ UNCHANGED <<equal, damped, merged>>
    /\ act' = [name |-> "DefGeo", k |-> k]

PlotGeo(k) ==
    /\ Step /\ UNCHANGED <<equal, damped, merged, geo>>
    /\ out' = IF Defined(k) THEN "ok" ELSE "ValueError"
    /\ act' = [name |-> "PlotGeo", k |-> k]

(* poser.plot_mode_geoK(poser.result[n], mode 1): the result is read first *)
PlotMode(k, n) ==
    /\ Step /\ UNCHANGED <<equal, damped, merged, geo>>
    /\ out' = IF ~merged THEN "ValueError"
              ELSE IF n \notin AlgNames THEN "KeyError"
              ELSE IF ~Defined(k) THEN "ValueError" ELSE "ok"
    /\ act' = [name |-> "PlotMode", k |-> k, alg |-> n]

Next == \/ Merge
        \/ SetSetups
        \/ (\E n \in Lookups : ReadResult(n))
        \/ (\E k \in {1, 2} : DefGeo(k) \/ PlotGeo(k))
        \/ (\E k \in {1, 2}, n \in Lookups : PlotMode(k, n))
Spec == Init /\ [][Next]_vars

ResultOnlyAfterMerge == [][(act'.name \in {"ReadResult", "PlotMode"} /\ out' = "ok") => merged]_vars
MergeIsStable == [][merged => merged']_vars
RejectedCallsChangeNothing == [][out' # "ok" => UNCHANGED <<merged, geo>>]_vars
NeverMergedWhenUnequal == (~equal \/ ~damped) => ~merged

St(m, g, l) == [merged |-> m, geo |-> g, len |-> l]
Emit == PrintT(<<"TR", ToJson([equal |-> equal, damped |-> damped, pre |-> St(merged, geo, len), act |-> act', out |-> out', post |-> St(merged', geo', len')])>>)
=============================================================================
