---------------------------- MODULE SetupMeta ----------------------------
(* Integer core of Setup.tla for an unbounded (inductive) check of MetaTruthful with Apalache:                 *)
(* one dataset, sampling rate Fs0 / qprod, sample count ndat, reported attributes as integer numerators over   *)
(* known denominators: fs = Fs0 / mq, dt = mq / Fs0, T = mT / Fs0.                                              *)
EXTENDS Integers

CONSTANTS
    \* @type: Int;
    N0,
    \* @type: Int;
    Fs0

VARIABLES
    \* @type: Int;
    qprod,
    \* @type: Int;
    ndat,
    \* @type: Int;
    mq,
    \* @type: Int;
    mndat,
    \* @type: Int;
    mT

CInit == N0 \in 1..100000 /\ Fs0 \in 1..1000

Init == qprod = 1 /\ ndat = N0 /\ mq = 1 /\ mndat = N0 /\ mT = N0

Dec(q) ==
    /\ qprod' = qprod * q
    /\ ndat' = (ndat + q - 1) \div q
    /\ mq' = mq * q
    /\ mndat' = (ndat + q - 1) \div q
    /\ mT' = ((ndat + q - 1) \div q) * (mq * q)

Other == UNCHANGED <<qprod, ndat, mq, mndat, mT>>
Rollback == qprod' = 1 /\ ndat' = N0 /\ mq' = 1 /\ mndat' = N0 /\ mT' = N0

Next == Dec(2) \/ Dec(3) \/ Dec(4) \/ Dec(5) \/ Other \/ Rollback

\* fs * qprod = Fs0, dt = 1 / fs, counts = lengths, T = samples * dt  (all over the denominator Fs0)
MetaTruthful == mq = qprod /\ mndat = ndat /\ mT = ndat * mq
IndInv == MetaTruthful /\ qprod >= 1 /\ ndat >= 0 /\ ndat <= N0
IndInit == qprod \in 1..100000 /\ ndat \in 0..100000 /\ mq \in 1..100000 /\ mndat \in 0..100000 /\ mT \in 0..2000000000 /\ IndInv
=============================================================================
