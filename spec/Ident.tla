-------------------------------- MODULE Ident -------------------------------
(***************************************************************************)
(* Abstract modal model and the SSI identification pipelines.              *)
(*                                                                         *)
(* A *system* is a set of modes drawn from a catalogue (frequency, damping *)
(* and shape of mode k are fixed in harness/tables.py; the specification   *)
(* knows only on which sensors a mode's shape component is zero).  A       *)
(* *layout* says which global sensors are measured, in which local order,  *)
(* and which of them are references.  A *pipeline* is one of               *)
(*    "single"  SSI through a single setup        (C01)                    *)
(*    "real"    realisation step alone on an exact rank-2m Hankel (C01)    *)
(*    "multi"   PreGER multi-setup SSI            (C03)                    *)
(*    "poser"   per-setup SSI then PoSER merging  (C02, end-to-end clause) *)
(* The specification predicts what the pole tables must contain: at order  *)
(* 2m every mode of the system exactly twice (a conjugate pair) and        *)
(* nothing else; at every higher order every mode at least twice; shapes   *)
(* in Layout!GlobalOrder; no dependence on per-setup gains.                *)
(***************************************************************************)
EXTENDS Layout, TLC, Json

CONSTANTS
    Systems,      \* set of sets of catalogue mode ids
    ZeroAt,       \* ZeroAt[k] = set of global sensors where the shape of mode k vanishes
    NSensors,     \* global sensors 1..NSensors (single pipelines: the measured channels)
    RefSizes,     \* single pipelines: set of reference-list lengths to enumerate
    Methods,      \* subset of {"cov_mm", "dat"}
    Routines,     \* subset of {"fast", "legacy"}
    BrExtra,      \* set of increments added to the minimal admissible block-row count
    MultiNRef, MultiCounts,      \* multi / poser pipelines: layouts = Layout!AllLayouts(MultiNRef, cnt)
    GainPats,     \* ids of per-setup gain patterns (harness)
    Pipeline      \* "single" | "real" | "multi" | "poser"

VARIABLES sys, lays, par, out, act
vars == <<sys, lays, par, out, act>>
View == <<sys, lays, par, out>>

CeilDiv(a, b) == (a + b - 1) \div b
Max(a, b) == IF a >= b THEN a ELSE b

InjSeqs(S, k) == {s \in [1..k -> S] : \A a, b \in 1..k : a # b => s[a] # s[b]}

(* every mode has a non-zero component on some reference sensor (precondition of the properties) *)
Observable(s, refSensors) == \A k \in s : (refSensors \ ZeroAt[k]) # {}     \* (no \E: TLC would branch on every witness)
Visible(s, sensors) == \A k \in s : (sensors \ ZeroAt[k]) # {}

(* Observability index of the modal model seen at a list of sensors.  Sensor c sees 2 * Vis(c) eigenvalues (the     *)
(* conjugate pairs of the modes whose shape does not vanish there) and contributes min(k, 2 Vis(c)) independent    *)
(* rows to the k-block observability matrix (a Vandermonde block in those eigenvalues), so for generic shape       *)
(* values the rank after k blocks is the sum of those terms, capped at 2m.                                        *)
Vis(s, c) == Cardinality({k \in s : c \notin ZeroAt[k]})
Min2(a, b) == IF a <= b THEN a ELSE b
RankAfter(k, s, sensors) ==
    LET F[i \in 0..Len(sensors)] == IF i = 0 THEN 0 ELSE F[i - 1] + Min2(k, 2 * Vis(s, sensors[i]))
    IN F[Len(sensors)]
ObsIndex(s, sensors) ==
    LET n == 2 * Cardinality(s)
        ok == {k \in 1..n : RankAfter(k, s, sensors) >= n}
    IN IF ok = {} THEN n + 1 ELSE CHOOSE k \in ok : \A j \in ok : k <= j
(* smallest block-row count the properties admit: observability index + 1 on the output side, and enough block   *)
(* columns for the reference sensors to span the modal space on the other side                                    *)
MinBrFor(s, sensors, refSensors) == Max(ObsIndex(s, sensors) + 1, ObsIndex(s, refSensors))
MinBr(m, l, r) == Max(CeilDiv(2 * m, l), CeilDiv(2 * m, r)) + 1      \* generic shapes (no vanishing components)

SingleLayouts ==
    {<<[chan |-> [c \in 1..NSensors |-> c], ref |-> r]>> : r \in UNION {InjSeqs(1..NSensors, k) : k \in RefSizes}}

Init ==
    /\ sys \in Systems
    /\ out = <<>> /\ act = [name |-> "Init"]
    /\ IF Pipeline \in {"single", "real"}
       THEN /\ lays \in SingleLayouts
            /\ Observable(sys, Range(RefSensors(lays[1])))
            /\ \E e \in BrExtra, mt \in Methods, rt \in Routines :
                 par = [br |-> MinBrFor(sys, lays[1].chan, RefSensors(lays[1])) + e, method |-> mt, routine |-> rt, gain |-> 0]
       ELSE /\ \E cnt \in MultiCounts : lays \in AllLayouts(MultiNRef, cnt)
            /\ Observable(sys, 1..MultiNRef)
            /\ \A i \in DOMAIN lays : Visible(sys, Range(lays[i].chan))
            /\ \E e \in BrExtra, mt \in Methods, g \in GainPats :
                 par = [br |-> MinBrFor(sys, RefSensors(lays[1]), RefSensors(lays[1])) + e, method |-> mt, routine |-> "fast", gain |-> g]

(* the prediction: which catalogue modes sit in which order column, how often *)
Identify ==
    /\ out = <<>>
    /\ out' = [order |-> 2 * Cardinality(sys),
               at_order |-> [k \in sys |-> 2],                  \* each mode exactly twice, nothing else
               above |-> [k \in sys |-> 2],                     \* at least twice at every higher order
               rows |-> GlobalOrder(lays),                      \* sensor of every mode-shape row
               gain_free |-> TRUE]
    /\ UNCHANGED <<sys, lays, par>>
    /\ act' = [name |-> "Identify"]

Next == Identify
Spec == Init /\ [][Next]_vars

Done == out # <<>>
ExactAtTrueOrder == Done => (out.order = 2 * Cardinality(sys) /\ \A k \in sys : out.at_order[k] = 2)
BlockRowsAdmissible ==
    Pipeline \in {"single", "real"} =>
        /\ par.br >= ObsIndex(sys, lays[1].chan) + 1                                   \* observability index + 1
        /\ RankAfter(par.br + 1, sys, RefSensors(lays[1])) >= 2 * Cardinality(sys)     \* the reference side spans the modal space
ObservablePrecondition == Observable(sys, Range(RefSensors(lays[1])))
GlobalShapeOrder == Done =>
    /\ \A j \in DOMAIN lays[1].ref : out.rows[j] = RefSensors(lays[1])[j]
    /\ Range(out.rows) = UNION {Range(lays[i].chan) : i \in DOMAIN lays}
EnoughBlockColumns == (par.br + 1) * Len(lays[1].ref) >= 2 * Cardinality(sys)

Emit == PrintT(<<"TR", ToJson([sys |-> sys, lays |-> lays, par |-> par, out |-> out'])>>)
=============================================================================
