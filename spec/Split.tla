------------------------------- MODULE Split --------------------------------
(***************************************************************************)
(* The reference / roving split made when a PreGER multi-setup object is   *)
(* built (gen.pre_multisetup): exhaustive over every channel count and     *)
(* every ordered reference subset (C03, second sentence).                  *)
(***************************************************************************)
EXTENDS Layout, TLC, Json

CONSTANTS MaxCh    \* largest channel count

VARIABLES lay, out, act
vars == <<lay, out, act>>
View == <<lay, out>>

(* all injective sequences of length k over S *)
InjSeqs(S, k) == {s \in [1..k -> S] : \A a, b \in 1..k : a # b => s[a] # s[b]}

Init ==
    /\ \E n \in 1..MaxCh : \E k \in 1..n :
          \E r \in InjSeqs(1..n, k) : lay = [chan |-> [c \in 1..n |-> c], ref |-> r]
    /\ out = <<>>
    /\ act = [name |-> "Init"]

DoSplit ==
    /\ out = <<>>
    /\ out' = SplitRows(lay)
    /\ UNCHANGED lay
    /\ act' = [name |-> "Split"]

Next == DoSplit
Spec == Init /\ [][Next]_vars

Done == out # <<>>
(* every channel ends up in exactly one block, references in listed order, roving ascending *)
Partition == Done =>
    /\ Range(out.ref) \cup Range(out.mov) = 1..Len(lay.chan)
    /\ Range(out.ref) \cap Range(out.mov) = {}
    /\ Len(out.ref) + Len(out.mov) = Len(lay.chan)
RefListed == Done => out.ref = lay.ref
MovAscending == Done => \A a, b \in DOMAIN out.mov : a < b => out.mov[a] < out.mov[b]

Emit == PrintT(<<"TR", ToJson([lay |-> lay, out |-> out'])>>)
=============================================================================
