#!/bin/bash
# tools/selftest.sh - binding demonstration: every seeded change under /verif/seeded must be detected (exit 1) by the quick
# command of its property, and the same command must be quiet (exit 0) on the unchanged tree.  Applies each patch to
# /repo, runs the check, and reverts (`git -C /repo checkout -- .`).  Writes seeded/SUMMARY.json.
cd /verif
git -C /repo diff --quiet || { echo "/repo has uncommitted changes"; exit 2; }
echo "[" > /tmp/selftest.json; first=1; fail=0
for d in seeded/*/; do
  n=$(basename $d); p=$(python3 -c "import json;print(json.load(open('$d/meta.json'))['property'])")
  git -C /repo apply /verif/$d/patch.diff || { echo "$n: patch does not apply"; fail=1; continue; }
  ./check $p > /tmp/selftest_$n.log 2>&1; rc=$?
  git -C /repo checkout -- .
  keys=$(grep -m2 "key=" /tmp/selftest_$n.log | sed 's/.*key=//' | tr '\n' ';')
  echo "$n property=$p rc=$rc $keys"
  [ $rc -eq 1 ] || fail=1
  [ $first -eq 1 ] || echo "," >> /tmp/selftest.json; first=0
  echo "{\"seed\": \"$n\", \"property\": \"$p\", \"check_rc\": $rc, \"detected\": $([ $rc -eq 1 ] && echo true || echo false)}" >> /tmp/selftest.json
done
echo "]" >> /tmp/selftest.json
cp /tmp/selftest.json seeded/SUMMARY.json
exit $fail
