#!/bin/bash
# tools/selftest.sh - binding demonstration: every seeded breaking change under /verif/seeded (round 1: seeded/<name>/,
# round 2 / 3: seeded/r2/<Cxx>_break_N/, seeded/r3/<Cxx>_break_N/) must be detected (exit 1) by the quick command of its property, every benign change
# (seeded/r2/<Cxx>_benign_N/) must leave it quiet (exit 0), and the same command must be quiet on the unchanged tree.
# Applies each patch to /repo, runs the check, and reverts (`git -C /repo checkout -- .`).  Writes seeded/SUMMARY.json.
cd /verif
git -C /repo diff --quiet || { echo "/repo has uncommitted changes"; exit 2; }
echo "[" > /tmp/selftest.json; first=1; fail=0
for d in seeded/C*/ seeded/r2/C*/ seeded/r3/C*/; do
  [ -f $d/patch.diff ] || continue
  n=$(basename $d)
  if [ -f $d/meta.json ]; then p=$(python3 -c "import json;print(json.load(open('$d/meta.json'))['property'])"); else p=${n%%_*}; fi
  want=1; [[ $n == *_benign_* ]] && want=0
  git -C /repo apply /verif/$d/patch.diff || { echo "$n: patch does not apply"; fail=1; continue; }
  ./check $p > /tmp/selftest_$n.log 2>&1; rc=$?
  git -C /repo checkout -- .
  keys=$(grep -m2 "key=" /tmp/selftest_$n.log | sed 's/.*key=//' | tr '\n' ';')
  echo "$n property=$p rc=$rc (expected $want) $keys"
  [ $rc -eq $want ] || fail=1
  [ $first -eq 1 ] || echo "," >> /tmp/selftest.json; first=0
  echo "{\"seed\": \"$n\", \"property\": \"$p\", \"check_rc\": $rc, \"expected_rc\": $want, \"as_expected\": $([ $rc -eq $want ] && echo true || echo false)}" >> /tmp/selftest.json
done
echo "]" >> /tmp/selftest.json
cp /tmp/selftest.json seeded/SUMMARY.json
exit $fail
