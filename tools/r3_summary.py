#!/usr/bin/env python3
"""seeded/r3/SUMMARY.md from the run.json files written by tools/r3_eval.sh"""
import glob
import json
import os

rows = []
for d in sorted(glob.glob("/verif/seeded/r3/C*_*")):
    rj = os.path.join(d, "run.json")
    if not os.path.exists(rj):
        continue
    r = json.load(open(rj))
    n = {}
    if os.path.exists(os.path.join(d, "notes.json")):
        n = json.load(open(os.path.join(d, "notes.json")))
    name = os.path.basename(d)
    want = 0 if "benign" in name else 1
    rcs = dict(x.split("=") for x in r["checks"].split())
    pid = name.split("_")[0]
    ok = int(rcs.get(pid, -1)) == want
    other = None
    if os.path.exists(os.path.join(d, "meta.json")):
        other = json.load(open(os.path.join(d, "meta.json"))).get("property")
    rows.append((name, r["demo_rc_with_change"], r["demo_rc_without_change"], r["baseline_pass_missing"], r["checks"].strip(),
                 "as expected" if ok else (f"reported by the {other} command (meta.json)" if other else "NOT as expected"), (n.get("needs") or n.get("why_property_preserved") or "")[:160].replace("\n", " ").replace("|", "/")))
with open("/verif/seeded/r3/SUMMARY.md", "w") as f:
    f.write("# Round 3 of the seeded campaign - final re-run with the corrected checks (tools/r3_eval.sh, run against the scratch worktrees)\n\n")
    f.write("| change | demo rc with / without | baseline pass missing | quick check rc | verdict | needs / why preserved |\n|---|---|---|---|---|---|\n")
    for x in rows:
        f.write(f"| `{x[0]}` | {x[1]} / {x[2]} | {x[3]} | {x[4]} | {x[5]} | {x[6]} |\n")
    f.write("\n`C03_break_1` (rollback no longer restores fs) is a sequence decimate - rollback - run: reported by the C14 command "
            "(meta.json names C14 as the detecting check), not by C03.\n")
print(len(rows), "rows;", sum(1 for x in rows if x[5] == "NOT as expected"), "not as expected")
