#!/venv/bin/python
"""
tools/mutate.py - first-order mutation campaign against the quick checks (binding demonstration, not a registered check).

  tools/mutate.py list  <file> <function>            list the candidate mutants of one function
  tools/mutate.py run   <plan.json> <out.ndjson>     run a campaign

A plan is a list of {"file": "src/pyoma2/functions/gen.py", "func": "SC_apply", "checks": ["C10"], "n": 6}.
For every sampled mutant the file in /repo is rewritten, the listed quick checks are run (stopping at the first
exit 1), and - only if every check stayed quiet - the 75 stable baseline tests are run: a mutant that the baseline
kills is not a realistic change and is not counted.  /repo is restored with `git checkout -- <file>` after each mutant.
Survivors (quiet checks, green baseline) are written with their diff for triage: equivalent mutant, change outside
every listed property, or a blind spot of the check.
"""
import ast
import json
import os
import random
import subprocess
import sys
import time

REPO = "/repo"

CMP = {ast.Lt: ("<", "<="), ast.LtE: ("<=", "<"), ast.Gt: (">", ">="), ast.GtE: (">=", ">"), ast.Eq: ("==", "!="), ast.NotEq: ("!=", "==")}
BIN = {ast.Add: ("+", "-"), ast.Sub: ("-", "+"), ast.Mult: ("*", "/"), ast.Div: ("/", "*"), ast.MatMult: None, ast.FloorDiv: ("//", "/")}
NAMES = {"argmin": "argmax", "argmax": "argmin", "nanargmin": "nanargmax", "nanargmax": "nanargmin", "min": "max", "max": "min",
         "nanmin": "nanmax", "nanmax": "nanmin", "any": "all", "all": "any", "real": "imag", "floor": "ceil", "ceil": "floor",
         "vstack": "hstack", "hstack": "vstack", "nanmean": "nanmedian", "mean": "median"}


def offsets(src):
    out, pos = [0], 0
    for ln in src.splitlines(keepends=True):
        pos += len(ln)
        out.append(pos)
    return out


def abs_pos(off, lineno, col, line_bytes):
    # ast columns are utf-8 byte offsets; the sources are ascii in the mutated regions
    return off[lineno - 1] + col


def candidates(src, func):
    tree = ast.parse(src)
    off = offsets(src)
    target = None
    for node in ast.walk(tree):
        if isinstance(node, (ast.FunctionDef, ast.AsyncFunctionDef)) and node.name == func.split(".")[-1]:
            if "." in func:
                continue
            target = node
            break
    if "." in func:
        cls, meth = func.split(".")
        for node in ast.walk(tree):
            if isinstance(node, ast.ClassDef) and node.name == cls:
                for sub in node.body:
                    if isinstance(sub, ast.FunctionDef) and sub.name == meth:
                        target = sub
    if target is None:
        raise SystemExit(f"function {func} not found")
    body_start = target.body[0]
    if isinstance(body_start, ast.Expr) and isinstance(getattr(body_start, "value", None), ast.Constant) and isinstance(body_start.value.value, str):
        doc_end = body_start.end_lineno
    else:
        doc_end = target.lineno
    muts = []

    def seg(a, b):
        return src[a:b]

    for node in ast.walk(target):
        if getattr(node, "lineno", doc_end + 1) <= doc_end:
            continue
        if isinstance(node, ast.Compare) and len(node.ops) == 1 and type(node.ops[0]) in CMP:
            a = abs_pos(off, node.left.end_lineno, node.left.end_col_offset, None)
            b = abs_pos(off, node.comparators[0].lineno, node.comparators[0].col_offset, None)
            old, new = CMP[type(node.ops[0])]
            k = seg(a, b).find(old)
            if k >= 0:
                muts.append((a + k, a + k + len(old), new, f"L{node.lineno}: {old} -> {new}"))
        elif isinstance(node, ast.BinOp) and BIN.get(type(node.op)):
            a = abs_pos(off, node.left.end_lineno, node.left.end_col_offset, None)
            b = abs_pos(off, node.right.lineno, node.right.col_offset, None)
            old, new = BIN[type(node.op)]
            s = seg(a, b)
            k = s.find(old)
            if k >= 0 and "(" not in s[:k] and ")" not in s[k:]:
                muts.append((a + k, a + k + len(old), new, f"L{node.lineno}: binary {old} -> {new}"))
        elif isinstance(node, ast.Constant) and isinstance(node.value, int) and not isinstance(node.value, bool) and 0 <= node.value <= 3:
            a = abs_pos(off, node.lineno, node.col_offset, None)
            b = abs_pos(off, node.end_lineno, node.end_col_offset, None)
            if seg(a, b) == str(node.value):
                muts.append((a, b, str(node.value + 1), f"L{node.lineno}: constant {node.value} -> {node.value + 1}"))
                if node.value > 0:
                    muts.append((a, b, str(node.value - 1), f"L{node.lineno}: constant {node.value} -> {node.value - 1}"))
        elif isinstance(node, ast.Attribute) and node.attr in NAMES:
            b = abs_pos(off, node.end_lineno, node.end_col_offset, None)
            a = b - len(node.attr)
            if seg(a, b) == node.attr:
                muts.append((a, b, NAMES[node.attr], f"L{node.lineno}: .{node.attr} -> .{NAMES[node.attr]}"))
        elif isinstance(node, ast.Call) and isinstance(node.func, ast.Attribute) and node.func.attr in ("conj", "conjugate") and not node.args:
            a = abs_pos(off, node.func.value.end_lineno, node.func.value.end_col_offset, None)
            b = abs_pos(off, node.end_lineno, node.end_col_offset, None)
            muts.append((a, b, "", f"L{node.lineno}: drop .{node.func.attr}()"))
        elif isinstance(node, ast.Attribute) and node.attr == "T":
            a = abs_pos(off, node.value.end_lineno, node.value.end_col_offset, None)
            b = abs_pos(off, node.end_lineno, node.end_col_offset, None)
            if seg(a, b) == ".T":
                muts.append((a, b, "", f"L{node.lineno}: drop .T"))
        elif isinstance(node, ast.UnaryOp) and isinstance(node.op, ast.USub):
            a = abs_pos(off, node.lineno, node.col_offset, None)
            if src[a] == "-":
                muts.append((a, a + 1, "+", f"L{node.lineno}: unary - -> +"))
        elif isinstance(node, ast.UnaryOp) and isinstance(node.op, ast.Not):
            a = abs_pos(off, node.lineno, node.col_offset, None)
            if src[a:a + 4] == "not ":
                muts.append((a, a + 4, "", f"L{node.lineno}: drop not"))
        elif isinstance(node, ast.BoolOp):
            # and <-> or between the first two operands
            a = abs_pos(off, node.values[0].end_lineno, node.values[0].end_col_offset, None)
            b = abs_pos(off, node.values[1].lineno, node.values[1].col_offset, None)
            old, new = ("and", "or") if isinstance(node.op, ast.And) else ("or", "and")
            k = seg(a, b).find(old)
            if k >= 0:
                muts.append((a + k, a + k + len(old), new, f"L{node.lineno}: {old} -> {new}"))
        elif isinstance(node, ast.Subscript) and isinstance(node.slice, ast.Slice):
            sl = node.slice
            for part, name in ((sl.lower, "lower"), (sl.upper, "upper")):
                if part is not None and isinstance(part, (ast.Name, ast.BinOp, ast.Constant, ast.Attribute, ast.Subscript)):
                    a = abs_pos(off, part.lineno, part.col_offset, None)
                    b = abs_pos(off, part.end_lineno, part.end_col_offset, None)
                    txt = seg(a, b)
                    if "\n" not in txt:
                        muts.append((a, b, f"({txt}) + 1", f"L{node.lineno}: slice {name} bound {txt} -> +1"))
    # statement-level mutants: drop a simple assignment / augmented assignment / expression statement (replace by `pass`),
    # and swap the first two positional arguments of a call when both are plain names
    lines = src.splitlines(keepends=True)
    for node in ast.walk(target):
        if getattr(node, "lineno", doc_end + 1) <= doc_end:
            continue
        lost_update = (isinstance(node, ast.AugAssign)
                       or (isinstance(node, ast.Assign) and all(isinstance(x, (ast.Subscript, ast.Attribute)) for x in node.targets))
                       or (isinstance(node, ast.Expr) and isinstance(node.value, ast.Call)))
        if lost_update:
            if node.lineno == node.end_lineno or True:
                a = off[node.lineno - 1] + node.col_offset
                b = off[node.end_lineno - 1] + node.end_col_offset
                txt = src[a:b]
                if "logger" in txt or "print(" in txt:
                    continue
                # only statements that are not the single statement of a block (keeps the code compilable either way)
                muts.append((a, b, "pass", f"L{node.lineno}: delete statement `{txt.splitlines()[0][:50]}`"))
        if isinstance(node, ast.Call) and len(node.args) >= 2 and all(isinstance(x, ast.Name) for x in node.args[:2]) \
                and node.args[0].id != node.args[1].id and node.args[0].lineno == node.args[1].lineno:
            a0 = off[node.args[0].lineno - 1] + node.args[0].col_offset
            b0 = off[node.args[0].end_lineno - 1] + node.args[0].end_col_offset
            a1 = off[node.args[1].lineno - 1] + node.args[1].col_offset
            b1 = off[node.args[1].end_lineno - 1] + node.args[1].end_col_offset
            txt = src[a0:b1]
            swapped = src[a1:b1] + src[b0:a1] + src[a0:b0]
            muts.append((a0, b1, swapped, f"L{node.lineno}: swap arguments `{txt[:50]}`"))
    muts = sorted(set(muts))
    return muts


def apply(src, m):
    a, b, new, _ = m
    return src[:a] + new + src[b:]


def sh(cmd, timeout=3600, cwd="/verif"):
    p = subprocess.run(cmd, shell=True, cwd=cwd, capture_output=True, text=True, timeout=timeout)
    return p.returncode, p.stdout + p.stderr


def main():
    if sys.argv[1] == "list":
        path = os.path.join(REPO, sys.argv[2])
        src = open(path).read()
        for i, m in enumerate(candidates(src, sys.argv[3])):
            print(i, m[3], "|", src[m[0] - 25:m[0]].replace("\n", " ")[-25:] + "[" + src[m[0]:m[1]] + "=>" + m[2] + "]" + src[m[1]:m[1] + 20].replace("\n", " "))
        return
    plan = json.load(open(sys.argv[2]))
    out = open(sys.argv[3], "a")
    seed = int(os.environ.get("MUT_SEED", "1"))
    if sh("git -C /repo diff --quiet")[0] != 0:
        raise SystemExit("/repo has uncommitted changes")
    for item in plan:
        path = os.path.join(REPO, item["file"])
        src = open(path).read()
        cands = candidates(src, item["func"])
        if os.environ.get("MUT_FILTER"):
            import re

            cands = [c for c in cands if re.search(os.environ["MUT_FILTER"], c[3])]
        if not cands:
            continue
        rng = random.Random(f"{seed}:{item['file']}:{item['func']}")
        pick = rng.sample(range(len(cands)), min(item.get("n", 4), len(cands)))
        for i in sorted(pick):
            m = cands[i]
            mutated = apply(src, m)
            try:
                compile(mutated, path, "exec")
            except SyntaxError:
                continue
            open(path, "w").write(mutated)
            t0 = time.time()
            rec = {"file": item["file"], "func": item["func"], "mutant": i, "what": m[3], "checks": {}}
            try:
                detected = False
                for c in item["checks"]:
                    rc, log = sh(f"./check {c}")
                    rec["checks"][c] = rc
                    if rc == 1:
                        detected = True
                        keys = [ln.strip() for ln in log.splitlines() if ln.strip().startswith("key=")]
                        rec["keys"] = sorted(set(keys))[:4]
                        break
                    if rc == 2:
                        rec["machinery"] = log[-1500:]
                rec["detected"] = detected
                if not detected:
                    rc, log = sh("tools/baseline.py", timeout=2400)
                    rec["baseline_rc"] = rc
                    rec["status"] = "survivor" if rc == 0 else "killed_by_baseline"
                    rec["diff"] = sh(f"git -C /repo diff -- {item['file']}")[1]
                else:
                    rec["status"] = "detected"
            finally:
                sh(f"git -C /repo checkout -- {item['file']}")
            rec["seconds"] = round(time.time() - t0)
            out.write(json.dumps(rec) + "\n")
            out.flush()
            print(rec["file"], rec["func"], i, rec["what"], rec["status"], rec["checks"], flush=True)


if __name__ == "__main__":
    main()
