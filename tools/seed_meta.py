#!/venv/bin/python
"""tools/seed_meta.py <name> <property> <caught:yes|no|after-strengthening> "<needs>" "<note>"  -> seeded/<name>/meta.json"""
import json, sys, os
name, prop, caught, needs, note = sys.argv[1:6]
d = f"/verif/seeded/{name}"
run = json.load(open(f"{d}/run.json")) if os.path.exists(f"{d}/run.json") else {}
keys = []
if os.path.exists(f"{d}/check.log"):
    for ln in open(f"{d}/check.log"):
        if ln.strip().startswith("key="):
            k = ln.strip()[4:]
            if k not in keys:
                keys.append(k)
meta = {
    "property": prop,
    "source": "independent sub-agent given only the property text and a scratch worktree",
    "needs_to_manifest": needs,
    "confirmed": {
        "demo_fails_with_change": run.get("demo_rc_with_change", None) not in (0, None),
        "demo_passes_without_change": run.get("demo_rc_without_change", None) == 0,
        "baseline_stable_tests_passing_with_change": run.get("baseline_pass_missing"),
        "how": "tools/seed_eval.sh: demo with / without the patch in the scratch worktree, the 75 stable baseline tests with the patch, "
               "then `git -C /repo apply`, `./check <id>` (quick), `git -C /repo checkout -- .`",
    },
    "check": f"./check {prop} --tier quick",
    "check_exit_code_against_change": run.get("check_rc"),
    "detected": caught,
    "violation_keys": keys[:6],
    "note": note,
}
json.dump(meta, open(f"{d}/meta.json", "w"), indent=1)
print(json.dumps(meta, indent=1)[:600])
