#!/venv/bin/python
"""Run the repository's pinned test-suite with every verification guard off and compare the
passing set with /root/.vp/BASELINE.json (stable_pass).  Exit 0 iff every stable test passes."""
import json, os, subprocess, sys, tempfile
import xml.etree.ElementTree as ET

base = json.load(open("/root/.vp/BASELINE.json"))
env = {k: v for k, v in os.environ.items() if not k.startswith("PYOMA2_VERIF")}
fd, xml = tempfile.mkstemp(suffix=".xml"); os.close(fd)
cmd = base["cmd"].replace("<file>", xml)
p = subprocess.run(cmd, shell=True, env=env, capture_output=True, text=True)
passed = set()
for tc in ET.parse(xml).getroot().iter("testcase"):
    if not any(c.tag in ("failure", "error", "skipped") for c in tc):
        passed.add(f"{tc.get('classname')}::{tc.get('name')}")
os.remove(xml)
missing = [t for t in base["stable_pass"] if t not in passed]
print(f"baseline: {len(base['stable_pass']) - len(missing)}/{len(base['stable_pass'])} stable tests pass; extra passing: {len(passed - set(base['stable_pass']))}")
for m in missing:
    print("  NOT PASSING:", m)
sys.exit(1 if missing else 0)
