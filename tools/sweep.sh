#!/bin/bash
# tools/sweep.sh <tier> [ids...]  - run the checks of a tier one after the other, one summary line each
TIER=${1:-quick}; shift
IDS=${@:-C01 C02 C03 C04 C05 C06 C07 C08 C09 C10 C11 C12 C13 C14 C15 C16 C17 C18 C19 C20}
for p in $IDS; do s=$(date +%s); ./check $p --tier $TIER > /tmp/sweep_${TIER}_$p.log 2>&1; rc=$?; e=$(date +%s); echo "$p rc=$rc $((e-s))s $(tail -1 /tmp/sweep_${TIER}_$p.log | cut -c1-140)"; done
