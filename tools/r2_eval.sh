#!/bin/bash
# usage: tools/r2_eval.sh <Cxx> [extra check ids for the benign changes ...]
# Round 2 of the seeded campaign: a sub-agent left break_{1,2}.diff (+ demos) and benign_{1,2}.diff in /tmp/r2_<Cxx>/out.
# For each: confirm in the scratch worktree (demo with / without, 75 stable baseline tests with), then apply to /repo,
# run the property's quick check, revert.  Results go to /verif/seeded/r2/<Cxx>_<variant>/.
set -u
ID=$1; shift; EXTRA="$*"; WT=/tmp/r2_$ID
git -C /repo diff --quiet || { echo "/repo has uncommitted changes"; exit 2; }
pyrun() { (cd $WT && PYTHONPATH=$WT/src MPLBACKEND=Agg TQDM_DISABLE=1 timeout 900 /venv/bin/python "$@"); }
baseline() {
  (cd $WT && PYTHONPATH=$WT/src MPLBACKEND=Agg TQDM_DISABLE=1 timeout 1500 /venv/bin/python -m pytest -q -p no:cacheprovider --timeout=900 --junitxml=/tmp/r2_$ID.xml tests > /tmp/r2_base_$ID.log 2>&1)
  /venv/bin/python - <<PY
import json, xml.etree.ElementTree as ET
base=json.load(open("/root/.vp/BASELINE.json"))
passed=set()
for tc in ET.parse("/tmp/r2_$ID.xml").getroot().iter("testcase"):
    if not any(c.tag in ("failure","error","skipped") for c in tc): passed.add(f"{tc.get('classname')}::{tc.get('name')}")
missing=[t for t in base["stable_pass"] if t not in passed]
print(len(base["stable_pass"])-len(missing), len(missing))
PY
}
git -C $WT checkout -- . 2>/dev/null
for V in break_1 break_2 benign_1 benign_2; do
  P=$WT/out/$V.diff
  [ -s $P ] || { echo "$ID $V: no diff"; continue; }
  OUT=/verif/seeded/r2/${ID}_$V; mkdir -p $OUT
  cp $P $OUT/patch.diff
  /venv/bin/python -c "import json;d=json.load(open('$WT/out/notes.json'));json.dump(d.get('$V',{}),open('$OUT/notes.json','w'),indent=1)" 2>/dev/null
  RC_WITH=null; RC_WITHOUT=null
  if [ -f $WT/out/${V}_demo.py ]; then
    cp $WT/out/${V}_demo.py $OUT/demo.py
    pyrun out/${V}_demo.py > $OUT/demo_without.log 2>&1; RC_WITHOUT=$?
  fi
  git -C $WT apply $P || { echo "$ID $V: patch does not apply in worktree"; continue; }
  if [ -f $WT/out/${V}_demo.py ]; then pyrun out/${V}_demo.py > $OUT/demo_with.log 2>&1; RC_WITH=$?; fi
  BASE=$(baseline)
  git -C $WT checkout -- .
  git -C /repo apply $P || { echo "$ID $V: patch does not apply to /repo"; continue; }
  RCS=""
  for C in $ID $( [[ $V == benign* ]] && echo $EXTRA ); do
    (cd /verif && ./check $C > $OUT/check_$C.log 2>&1); RC=$?
    RCS="$RCS $C=$RC"
    [ $RC -ne 0 ] && grep -m3 "key=" $OUT/check_$C.log | cut -c1-260
  done
  git -C /repo checkout -- .
  echo "$ID $V demo(with=$RC_WITH without=$RC_WITHOUT) baseline(pass missing)=$BASE checks:$RCS"
  echo "{\"variant\": \"$V\", \"demo_rc_with_change\": $RC_WITH, \"demo_rc_without_change\": $RC_WITHOUT, \"baseline_pass_missing\": \"$BASE\", \"checks\": \"$RCS\"}" > $OUT/run.json
done
