#!/bin/bash
# usage: tools/seed_eval.sh <Cxx> [<name>]  - confirm a seeded change produced in /tmp/wt_<Cxx> and run the check against it
set -u
ID=$1; NAME=${2:-$1}; WT=/tmp/wt_$ID; OUT=/verif/seeded/$NAME
mkdir -p $OUT
git -C $WT diff -- src > $OUT/patch.diff
cp $WT/demo_$ID.py $OUT/demo.py 2>/dev/null
[ -s $OUT/patch.diff ] || { echo "no diff in $WT"; exit 2; }
run() { (cd $WT && PYTHONPATH=$WT/src MPLBACKEND=Agg TQDM_DISABLE=1 timeout 600 /venv/bin/python "$@"); }
echo "== demo with change"; run demo_$ID.py > $OUT/demo_with.log 2>&1; RC_WITH=$?
# (git stash is shared by all worktrees of a repository: reverse-apply the patch instead)
git -C $WT apply -R $OUT/patch.diff
echo "== demo without change"; run demo_$ID.py > $OUT/demo_without.log 2>&1; RC_WITHOUT=$?
git -C $WT apply $OUT/patch.diff
echo "== baseline with change"
(cd $WT && PYTHONPATH=$WT/src MPLBACKEND=Agg TQDM_DISABLE=1 timeout 1200 /venv/bin/python -m pytest -q -p no:cacheprovider --timeout=900 --junitxml=/tmp/seed_$ID.xml tests > /tmp/seed_base_$ID.log 2>&1)
BASE=$(/venv/bin/python - <<PY
import json, xml.etree.ElementTree as ET
base=json.load(open("/root/.vp/BASELINE.json"))
passed=set()
for tc in ET.parse("/tmp/seed_$ID.xml").getroot().iter("testcase"):
    if not any(c.tag in ("failure","error","skipped") for c in tc): passed.add(f"{tc.get('classname')}::{tc.get('name')}")
missing=[t for t in base["stable_pass"] if t not in passed]
print(len(base["stable_pass"])-len(missing), len(missing))
PY
)
echo "demo rc with=$RC_WITH without=$RC_WITHOUT baseline(pass missing)=$BASE"
echo "== check against the change"
git -C /repo apply $OUT/patch.diff || { echo "patch does not apply to /repo"; exit 2; }
(cd /verif && ./check $ID > $OUT/check.log 2>&1); RC_CHECK=$?
git -C /repo checkout -- .
tail -3 $OUT/check.log | cut -c1-300
grep -m3 "key=" $OUT/check.log
echo "check rc=$RC_CHECK"
echo "{\"demo_rc_with_change\": $RC_WITH, \"demo_rc_without_change\": $RC_WITHOUT, \"baseline_pass_missing\": \"$BASE\", \"check_rc\": $RC_CHECK}" > $OUT/run.json
