#!/bin/bash
# usage: tools/r3_eval.sh <Cxx> [extra check ids for the benign change ...]
# Round 3 of the seeded campaign: a fresh sub-agent (given only the property text and its own scratch worktree /tmp/r3_<Cxx>)
# left break_{1,2}.diff (+ demos) and benign_1.diff in /tmp/r3_<Cxx>/out.  For each: confirm in the worktree (demo with /
# without the change, the 75 stable baseline tests with it), then run the property's quick check against the worktree
# (VERIF_SELFTEST_REPO: the check imports the worktree's sources; evidence / replays go to a scratch directory, /repo and
# /verif/evidence are not touched, so several properties can be evaluated in parallel).  Results: /verif/seeded/r3/<Cxx>_<variant>/.
set -u
ID=$1; shift; EXTRA="$*"; WT=/tmp/r3_$ID; SOUT=/tmp/r3out_$ID
pyrun() { (cd $WT && PYTHONPATH=$WT/src MPLBACKEND=Agg TQDM_DISABLE=1 timeout 900 /venv/bin/python "$@"); }
baseline() {
  (cd $WT && PYTHONPATH=$WT/src MPLBACKEND=Agg TQDM_DISABLE=1 timeout 1500 /venv/bin/python -m pytest -q -p no:cacheprovider --timeout=900 --junitxml=$SOUT/base.xml tests > $SOUT/base.log 2>&1)
  /venv/bin/python - <<PY
import json, xml.etree.ElementTree as ET
base=json.load(open("/root/.vp/BASELINE.json"))
passed=set()
for tc in ET.parse("$SOUT/base.xml").getroot().iter("testcase"):
    if not any(c.tag in ("failure","error","skipped") for c in tc): passed.add(f"{tc.get('classname')}::{tc.get('name')}")
missing=[t for t in base["stable_pass"] if t not in passed]
print(len(base["stable_pass"])-len(missing), len(missing))
PY
}
mkdir -p $SOUT
git -C $WT checkout -- . 2>/dev/null
for V in break_1 break_2 benign_1; do
  P=$WT/out/$V.diff
  [ -s $P ] || { echo "$ID $V: no diff"; continue; }
  OUT=/verif/seeded/r3/${ID}_$V; mkdir -p $OUT
  cp $P $OUT/patch.diff
  /venv/bin/python -c "import json;d=json.load(open('$WT/out/notes.json'));json.dump(d.get('$V',{}),open('$OUT/notes.json','w'),indent=1)" 2>/dev/null
  RC_WITH=null; RC_WITHOUT=null
  if [ -f $WT/out/${V}_demo.py ]; then
    cp $WT/out/${V}_demo.py $OUT/demo.py
    pyrun out/${V}_demo.py > $OUT/demo_without.log 2>&1; RC_WITHOUT=$?
  fi
  git -C $WT apply $P || { echo "$ID $V: patch does not apply in worktree"; continue; }
  if [ -f $WT/out/${V}_demo.py ]; then pyrun out/${V}_demo.py > $OUT/demo_with.log 2>&1; RC_WITH=$?; fi
  BASE=$(baseline)
  RCS=""
  for C in $ID $( [[ $V == benign* ]] && echo $EXTRA ); do
    (cd /verif && VERIF_SELFTEST_REPO=$WT VERIF_SELFTEST_OUT=$SOUT ./check $C > $OUT/check_$C.log 2>&1); RC=$?
    RCS="$RCS $C=$RC"
    [ $RC -ne 0 ] && grep -m3 "key=" $OUT/check_$C.log | cut -c1-260
  done
  git -C $WT checkout -- .
  echo "$ID $V demo(with=$RC_WITH without=$RC_WITHOUT) baseline(pass missing)=$BASE checks:$RCS"
  echo "{\"variant\": \"$V\", \"demo_rc_with_change\": $RC_WITH, \"demo_rc_without_change\": $RC_WITHOUT, \"baseline_pass_missing\": \"$BASE\", \"checks\": \"$RCS\", \"run_against\": \"scratch worktree via VERIF_SELFTEST_REPO\"}" > $OUT/run.json
done
rm -rf $SOUT
