#!/venv/bin/python
"""Regenerate /verif/MANIFEST.json from the table below (kept in one place so it stays valid)."""
import json
import os

HERE = os.path.dirname(os.path.dirname(os.path.abspath(__file__)))

TECH = "TLA+ spec checked by TLC; every TLC transition replayed into the real code (conformance)"

CHECKS = {
    "C12": dict(
        text="Hankel.tla: TLC enumerates every (channels 1..3(4), ordered reference subset, block rows 1..3(5), record "
             "length, method) shape and checks SingleLag, InRange, ToeplitzInRange, ToeplitzIsReflectedHankel, Shape, "
             "VecBijective on the index sets; for every shape the real build_hank is probed on the impulse basis of each "
             "argument against generic integer data in the other: non-zero entries only in the predicted block / channel "
             "/ reference at the predicted single lag, one weight per entry (one overall for cov_mm, a function of the lag "
             "for cov_R), bilinearity on random pairs, and for the data-driven method the Gram identity with the projection "
             "assembled from the specification's index sets; SSIResult.H of class runs equals build_hank(data, data[ref]). "
             "Thorough tier also proves the lag / range lemmas for all sizes with TLAPS (HankelLag.tla, 4 obligations).",
        ref="DESIGN.md §4.4, §5 C12",
        note="Trusted: TLC, numpy for the projection Gram matrix. The number of averaged products is not fixed by the "
             "property (a zero entry is accepted only at the first / last product of the model's range).",
        technique="TLC model checking of Hankel.tla + impulse-basis probing of the real build_hank for every enumerated shape",
    ),
    "C17": dict(
        text="Second sentence (decided by the specification): Hankel.tla's covariance-factor construction (BlocksPartition, "
             "VecBijective) - build_hank(calc_unc=True) on impulse products and integer data must equal the factor assembled "
             "from the specification's index sets (block-wise estimate minus full estimate, column stacking, "
             "1/sqrt(nb(nb-1))). First sentence (delegated relation, weakest binding): Perturb.tla fixes vectorisation "
             "(Unvec inverts VecCol), aggregation (sum of squares over factor columns) and the enumeration of shapes / orders "
             "/ column counts; the directional derivative is a central finite difference of the library's own SSI_fast -> "
             "SSI_poles at two step sizes that must agree to 1e-3, under the property's conditioning guards.",
        ref="DESIGN.md §4.4, §5 C17, §6",
        note="Trusted: TLC, numpy. For the first sentence nothing numerical is computed by TLC; the oracle is numerical "
             "differentiation of the code under test. Threshold 5e-3 relative (observed worst 6e-6 after the two repairs).",
        technique="TLC model checking of Hankel.tla / Perturb.tla + replay into build_hank; delegated finite-difference relation for Fn_cov",
    ),
    "C18": dict(
        text="Indicators.tla: TLC enumerates pairs / single shapes / collinear seeds of Gaussian-integer vectors (2..4 "
             "components incl. zero components), computes MAC exactly as a rational and proves MacBounded, MacSymmetric, "
             "MacScaleInvariant (Gaussian-integer factors), MacCollinearIsOne, MacSelfIsOne; each case is evaluated by "
             "gen.MAC / MPC / MPD / MCF / MSF: exact MAC (1e-12), matrix shape and transposition, bounds, invariance under "
             "the case's factor and a catalogue (1e-6, 1e6, (3-i)1e3, -i, ...), constants 1 / 1 / 0 / 0 and finiteness on "
             "collinear seeds, MSF(v, c v) = c; 8..64-component shapes sampled.",
        ref="DESIGN.md §4.9, §5 C18",
        note="Trusted: TLC, float comparison with stated tolerances (MPD 1e-6: arccos conditioning near 0). One listed known "
             "finding (MPC NaN on constant vectors, pinned by a baseline test).",
        technique="TLC model checking of Indicators.tla (exact rational MAC, scale algebra) + replay into gen.MAC/MPC/MPD/MCF/MSF",
    ),
    "C13": dict(
        text="Spectra.tla (focus est): TLC enumerates (channels, references, record, nxseg, every overlap with integer "
             "nxseg*pov, estimator, fs, impulse pair) and checks SegmentsInsideRecord, SegmentsCoverStep, NoMoreSegmentFits, "
             "GridReachesNyquist, OnlyThePairedEntry; predictions: exact rational grid, shape, segment table, which entry "
             "is non-zero for a pair of unit impulses, gain exponent, conjugation sign. SD_est is replayed on every case "
             "(grid / shape / pairing / segmentation by impulses) and per configuration on seeded data: g^2 scaling, "
             "bilinearity, Hermitian PSD, equality with an independent Welch implementation driven by the specification's "
             "segment table (lines >= 2, 1e-9), delayed copies (property's own tolerances), sinusoids with Gaussian-integer "
             "amplitudes (1e-9). FDD / EFDD / pLSCF results carry SD_est(data, data) with the run parameters.",
        ref="DESIGN.md §4.7, §5 C13, §6",
        note="Trusted: TLC, numpy FFT for the Welch reference. 'Integrates over frequency to the mean square' is checked "
             "statistically only (40 segments of white noise, allowance 25 %); the exact scaling is decided by the Welch clause.",
        technique="TLC model checking of Spectra.tla + replay into SD_est (impulse probing, Welch reference on the spec's segments)",
    ),
    "C19": dict(
        text="Geo.tla (+ Layout.tla): TLC enumerates table sets - name forms (row table, list, array; multi-setup list of "
             "lists / table with every reference layout), every row permutation of the coordinate / direction tables, optional "
             "sheets present or absent, every single-fault corruption; geo2: mapping tables over sensor / constraint / 0 / NaN "
             "cells, constraint matrices, sign tables - and checks RejectIffMalformed, OptionalSheetsOptional, ZeroBased, "
             "RowKIsSensorK, ZeroWhereNothingNamed; the prediction is ValueError or the geometry (names, which sensor every "
             "re-ordered row is, zero-based indices, mapped and displayed mode-shape values). Every case goes through "
             "check_on_geo1/2, def_geo1/2 on SingleSetup / MultiSetup_PreGER / MultiSetup_PoSER, dfphi_map_func and the Agg "
             "artists of plot_mode_geo1 / plot_mode_geo2_mpl (sensor k sits at (10k, k, -k) and carries component k+1; the result "
             "holds two modes and mode number 1 must draw the first). Every valid table set is defined twice from the same table objects.",
        ref="DESIGN.md §4.8, §5 C19, §6",
        note="Trusted: TLC, pandas DataFrames shaped as read_excel(sheet_name=None, index_col=0) returns them (openpyxl is "
             "not installed offline: reading .xlsx itself is outside the claim), matplotlib 3D artist accessors. Name forms "
             "and the array forms of the direction table (geo1) and of the optional tables (geo1, geo2) are varied.",
        technique="TLC model checking of Geo.tla + replay of every table set through the validation functions, def_geo* and the mode plots",
    ),
    "C14": dict(
        text="Setup.tla models the setup life cycle (decimate/detrend/filter/rollback/add) with a symbolic data term "
             "and exact rational metadata; TLC checks MetaTruthful, RollbackRestores, BindingFrozen, BoundToCurrent on "
             "every reachable state/step up to the length bound, and every transition it explores is executed on real "
             "SingleSetup / MultiSetup_PreGER objects and compared with the abstract post-state (data vs. scipy "
             "interpretation of the term, fs/dt/Ndat/T, user arrays and initial copy bit-equal). Exhaustive for all "
             "call sequences up to length 3 (quick) / 4 (thorough), sampled to length 6. Direction B: executions recorded "
             "from the repository's own test_plot_data and from seeded random drivers (7..10 calls over the whole API) are "
             "validated by TLC against TraceSetup.tla. Thorough tier also discharges MetaTruthful as an inductive invariant "
             "of the integer core (SetupMeta.tla) with Apalache.",
        ref="DESIGN.md §4.1, §5 C14",
        note="Trusted: scipy.signal (interpretation of the data term), TLC, harness/setup_world.py. Record lengths "
             "are chosen so that every scipy call in the alphabet is admissible. One listed known finding "
             "(SingleSetup.T after decimate, pinned by a baseline test).",
        technique="TLC model checking of Setup.tla + replay of every emitted transition on real setup objects + TLC trace validation (TraceSetup.tla) of recorded executions",
    ),
    "C15": dict(
        text="Setup.tla (orchestration alphabets: add / run_by_name / run_all / mpe / save+load) is model-checked for "
             "Gated, ResultIsFunctionOfBinding, Isolation, NoDataChangeByOrchestration; every transition is executed on "
             "real setups with real algorithm classes (FDD, FSDD, EFDD, SSIcov cov_mm/cov_R, SSIdat, pLSCF and the _MS "
             "variants) and each stored result is compared bit-exactly with the same algorithm run alone in a fresh "
             "setup on the scipy interpretation of the bound data term; Poser.tla enumerates the PoSER constructor's "
             "decision table (0..3 setups x 0..2 algorithms [type, not run/run/extracted] x 0..3 names, 4 setups "
             "sampled) and every configuration is built from real objects: Built iff Accept, else ValueError. Direction B: "
             "recorded random behaviours (gating, run / mpe flags, registry order, save / load) validated against "
             "TraceSetup.tla.",
        ref="DESIGN.md §4.1, §4.3, §5 C15",
        note="Trusted: TLC, scipy (data term), pickle, numpy.array_equal. Bit-equality is demanded only inside one "
             "process with single-threaded BLAS. 'nothing is stored' is read as: no result object is stored.",
        technique="TLC model checking of Setup.tla / Poser.tla + replay of every transition on real setups and algorithms + TLC trace validation of recorded executions",
    ),
    "C16": dict(
        text="Pick.tla models the picker as a state machine over key/mouse events with the selection as a multiset "
             "of <<frequency, order>> pairs; TLC checks Paired, Sorted, OrderIndependent, PickAddsOne, PickIsNearest, "
             "NoOpWithoutModifier, DeselectShrinksByOne, NearestGoes; every transition is delivered as a synthetic "
             "matplotlib event to a real head-less SelFromPlot (SSI, pLSCF, FDD variants) and lists + marker artist "
             "are compared with the abstract selection; complete behaviours are replayed inside the real "
             "mpe_from_plot of SSIcov / pLSCF / FDD and the extracted modes must be the selected cells. Direction B: "
             "recorded runs of the real dialog (10..14 events on 5 x 6 tables) validated against TracePick.tla. Includes runs with ordmin > 0.",
        ref="DESIGN.md §4.6, §5 C16",
        note="Trusted: TLC, harness/headless.py (Tk stand-ins; events enter through the dialog's own canvas wiring). "
             "Exact ties may resolve either way. Diagram drawing is stubbed during the walk (real in the hand-over).",
        technique="TLC model checking of Pick.tla + replay of every event sequence on the real dialog and mpe_from_plot + TLC trace validation (TracePick.tla) of recorded dialog runs",
    ),
    "C01": dict(
        text="Ident.tla (pipelines single / real): TLC enumerates systems (subsets of a 10-mode catalogue with real and complex "
             "shapes and exact zero components), channel counts, every ordered reference list that keeps the system observable "
             "(ObservablePrecondition), block rows from the minimum admissible count upward, both Hankel methods, both "
             "realisation routines, and checks ExactAtTrueOrder, BlockRowsAdmissible, EnoughBlockColumns; the prediction - "
             "each mode exactly twice at order 2m, nothing else - is checked on the real build_hank -> SSI_fast | SSI -> "
             "SSI_poles -> SSI_mpe chain and on SingleSetup + SSIcov / SSIdat (run, mpe) for synthesised free decays and for "
             "exact rank-2m Hankel matrices; the order-2m column is projected onto catalogue ids.",
        ref="DESIGN.md §4.10, §5 C01, §6",
        note="Trusted: TLC, numpy synthesis, closeness thresholds (|df|/f 1e-6, |dxi| 1e-6, 1-MAC 1e-8; observed errors "
             "~1e-10). Ill-conditioned generated inputs skipped and counted. Replay seeded-sampled above a cap.",
        technique="TLC model checking of Ident.tla + replay of every enumerated case through the SSI function chain and setup classes",
    ),
    "C02": dict(
        text="PoserMerge.tla (+ Layout.tla): TLC enumerates every arrangement of reference and roving sensors in every "
             "setup's channel list (2..4 setups, 1..3 references, 0..2 roving sensors), scale patterns of either sign and "
             "magnitude 0.05..20, and checks EverySensorOnce, RefsFirst, RovingInSetupOrder, LayoutsWellFormed; it predicts "
             "which global sensor every merged row is, that every row carries the first setup's factor, and exact rational "
             "statistics. Every case is merged by gen.merge_mode_shapes, gen.flatten_sns_names and "
             "MultiSetup_PoSER.merge_results (real SingleSetups, stub algorithms) for real and complex Gaussian-integer "
             "shapes and compared at 1e-12; mean and (population std / mean)^2 against the exact rationals. The judged merge_results call follows an earlier merge of other results on the same PoSER object (history must not show).",
        ref="DESIGN.md §4.2, §4.3, §5 C02",
        note="Trusted: TLC, exact Fractions / Gaussian integers of harness/tables.py. The end-to-end clause (shapes from SSI "
             "runs) is covered through Ident.tla in the C01/C03 machinery when present.",
        technique="TLC model checking of PoserMerge.tla + replay of every layout through merge_mode_shapes / merge_results",
    ),
    "C03": dict(
        text="Split.tla (+ Layout.tla): exhaustive over every channel count <= 6 and every ordered reference subset "
             "(Partition, RefListed, MovAscending); integer-tagged samples let the projection read which channel every "
             "output row of gen.pre_multisetup / MultiSetup_PreGER.data (construction, rollback) is and whether it is "
             "intact. Ident.tla (pipeline multi): TLC enumerates global systems, every arrangement of shared reference and "
             "roving sensors, block rows, both methods and per-setup gain patterns over four orders of magnitude; "
             "SSI_multi_setup -> SSI_poles and MultiSetup_PreGER + SSIcov_MS / SSIdat_MS (run_all, mpe) must show each "
             "global mode exactly twice at order 2m with shapes in Layout!GlobalOrder, independent of the gains.",
        ref="DESIGN.md §4.2, §4.10, §5 C03",
        note="Trusted: TLC, numpy synthesis, closeness thresholds as C01. The split after every preprocessing step is "
             "covered by C14's replay (data vs. interp with the same split definition).",
        technique="TLC model checking of Split.tla / Ident.tla / Layout.tla + replay through pre_multisetup, SSI_multi_setup and the _MS classes",
    ),
    "C04": dict(
        text="Spectra.tla (focus preger, + Layout.tla): TLC enumerates every arrangement of 1..3 shared reference channels "
             "and the roving channels in each of 2..4 setups' channel lists, (nxseg, overlap, estimator) triples and gain "
             "patterns; checks MergedRowsAreAllChannels and predicts which global channel every merged row / column is and "
             "which setup a roving row belongs to. Every case: setups cut from one recording -> SD_PreGER must equal SD_est "
             "of the channels in global order against the reference channels on the same grid (1e-7 on well-conditioned "
             "lines); with per-setup gains the reference block must be the mean of the per-setup reference blocks and every "
             "roving block that setup's transmissibility applied to the mean. FDD_MS / EFDD_MS / pLSCF_MS results likewise. Class-level runs are judged after an earlier run with another overlap; overlap fractions with a non-integer product with the segment length are included.",
        ref="DESIGN.md §4.7, §5 C04",
        note="Trusted: TLC; clause (i) compares two outputs of the library (the specification supplies correspondence and "
             "parameters); numpy.linalg.solve for transmissibilities. Lines with cond(reference block) > 1e8 not judged.",
        technique="TLC model checking of Spectra.tla/Layout.tla + replay of every partition through SD_PreGER vs SD_est",
    ),
    "C05": dict(
        text="PolyId.tla: TLC enumerates (order n, channels, reference rows, basis sign, ordmax in {n, n+2}, dt, line count >= "
             "4(n+1), root composition of each channel polynomial: stable / unstable conjugate pairs and real roots) and checks "
             "OnePerRoot, NaNElsewhere, SlotsGrow, OrderWithinMax; predictions: normalisation constraint, column of the order-n "
             "model, number of reported and blanked poles. The harness builds A(z) = T diag(p_c) S with those roots, a seeded "
             "B(z), normalises, evaluates B A^-1 on the library's grid and runs pLSCF -> pLSCF_poles and the pLSCF class "
             "(spectrum injected): coefficients reproduced up to the measured conditioning, reported eigenvalues = exactly the "
             "roots with non-positive real part under ln(z)/dt (1e-6), Fn/Xi map, NaN elsewhere in every table.",
        ref="DESIGN.md §4.10, §5 C05, §6",
        note="Trusted: TLC, numpy.poly / linalg for the construction. Conditioning of each case is measured (coefficient change "
             "under a 1e-10 perturbation of the spectrum); cases above 1e4 or with singular normal equations are not judged "
             "and counted; the check is inconclusive (exit 2) when fewer than 25 % of the cases are fully judged.",
        technique="TLC model checking of PolyId.tla + replay of every enumerated system through pLSCF / pLSCF_poles / the pLSCF class",
    ),
    "C07": dict(
        text="Bell.tla decides the claim domain in exact integer arithmetic (units of fs 10^-6): half-power bandwidth >= 4 "
             "lines, >= 30 periods and the sppk + npmax extrema in the half record, analysis band >= 4 bandwidths and inside "
             "the grid; TLC enumerates every in-claim (fn/fs, damping, segment length, channels, method, band, sampling rate) "
             "configuration with invariants ClaimResolved, ClaimPeriods, ClaimExtrema, ClaimBand, ClaimRanges and the action "
             "property GainFree, along the plan Estimate -> Scale(g) -> Estimate. For every configuration the harness builds "
             "the analytic spectral matrix |H(f)|^2 phi phi^T + 1e-9 I (continuous-time receptance, catalogue real shape) and "
             "runs fdd.EFDD_mpe and the EFDD / FSDD classes (spectrum injected at SD_est): MAC >= 0.999, |fn error| <= 2.5 %, "
             "|xi error| <= 15 % at unit gain; estimates equal (1e-9 / 1e-7) after multiplying the matrix by 1e-6, 7.3, 2.5e4.",
        ref="DESIGN.md §0.8, §6",
        note="Weakest binding of all checks: the numbers are delegated arithmetic (numpy builds the bell, the library estimates); "
             "TLC contributes the domain and the experiment plan. Selected frequency = fn and DF1 = one bandwidth are the "
             "harness's choices. Quick 512 configurations (exhaustive), thorough a seeded sample of 15000 estimates of the finer grid.",
        technique="TLC model checking of Bell.tla (claim domain) + replay of every in-claim configuration through EFDD_mpe / EFDD / FSDD",
    ),
    "C06": dict(
        text="Fdd.tla: TLC enumerates singular-value tables (exact ratio comparison by cross-multiplication), selected "
             "frequencies on a quarter-line lattice and band half-widths >= one spacing, and computes the set of "
             "admissible answers (a maximiser over some reading of the band between the narrowest and widest one); checks "
             "PickInBand, PickIsArgmax, SharpIsUnique, SomeAnswer, ValuesNonIncreasing; every case is handed to FDD_mpe, "
             "FDD.mpe, FDD_MS.mpe (returned line admissible, shape = normalised stored first vector of that line); "
             "permuted diagonal spectral matrices through SD_svalsvec; sinusoid records with Gaussian-integer amplitudes "
             "through FDD / EFDD / FSDD / FDD_MS / EFDD_MS setups (first stage observed at fdd.FDD_mpe: line, conjugation "
             "convention, normalisation, faithful decomposition at every line); two-tone records (a four times stronger tone "
             "inside DF2 but outside DF1) pin the first stage of EFDD / FSDD / EFDD_MS to the band DF1.",
        ref="DESIGN.md §4.7, §5 C06",
        note="Trusted: TLC, numpy MAC. A line within one spacing of a band limit may or may not count as in the band. "
             "One listed known finding (Nyquist line never a candidate when the band reaches the end of the grid).",
        technique="TLC model checking of Fdd.tla (Pick, Decompose) + replay through FDD_mpe / class mpe / SD_svalsvec and setups",
    ),
    "C08": dict(
        text="Transform.tla: TLC explores every word of <= 2 (thorough 3) transformations over Gain (1e-6, -3, 1e6), Permute, "
             "Mix (plane rotations) and TimeUnit (1/100, 3, 100), composes gains / units / permutations exactly and checks "
             "Homomorphism, PermIsPermutation, InverseUndoes, RefsFollowChannels, AssocOnPerms; each word is applied step by "
             "step to seeded data (the specification's composite is checked against the step-by-step channel map), FDD (per, "
             "cor), EFDD, FSDD, SSIcov (cov_mm, cov_R), SSIdat, pLSCF (per, cor) are run through SingleSetup on base and "
             "transformed data and the predicted relation Fn' = k Fn, Xi' = Xi, Phi' = Normalise(M Phi) is checked on whole "
             "pole tables (per order column) and on extracted modes, with every reported shape normalised to a unit largest "
             "component; FDD_MS / EFDD_MS / SSIcov_MS / SSIdat_MS / pLSCF_MS on a fixed list of words.",
        ref="DESIGN.md §4.9, §5 C08, §6",
        note="Trusted: TLC, numpy comparison with per-family tolerances (FDD 1e-9, EFDD 1e-6, SSI 1e-7, pLSCF 1e-5, x10 "
             "under mixing). The continuum of gains / units is explored at catalogue points; hard criteria set loose.",
        technique="TLC model checking of Transform.tla + metamorphic replay of every word through all algorithm classes",
    ),
    "C09": dict(
        text="Poles.tla, action HardCriteria: TLC enumerates unfiltered pole tables over a classified cell alphabet "
             "(conjugate present/absent, damping <=0 / ok / >= max, catalogue shapes on either side of the MPC / MPD "
             "limits, covariance below / above the maximum) and every on/off combination of the criteria, and checks "
             "Sound, Complete, ValuesUnchanged; every case is injected as the unfiltered solution of the real run() of "
             "SSIdat, SSIcov, SSIdat_MS, SSIcov_MS, pLSCF, pLSCF_MS and the NaN pattern of every stored table must equal "
             "the specification's post-state, retained values bit-identical. The judged run is the third run of the same algorithm object (after the strictest hard criteria and other soft tolerances).",
        ref="DESIGN.md §4.5, §5 C09",
        note="Trusted: TLC, harness/poles_world.py (catalogue -> numpy tables with real conjugate twin rows; the "
             "pole-producing functions are patched in the harness process), gen.MPC/gen.MPD as classifiers of the "
             "catalogue shapes (margin >= 0.02).",
        technique="TLC model checking of Poles.tla (HardCriteria) + replay of every case through the real run() methods",
    ),
    "C10": dict(
        text="Poles.tla, action Label: TLC enumerates all pairs of adjacent columns over a cell alphabet with close / "
             "far frequencies, dampings and Gaussian-integer shapes (MAC computed exactly as a rational) and all "
             "placements of [ordmin, ordmax] over 5 columns for both column<->order maps, computes the set of admissible "
             "labels per cell (two only on an exact tie) and checks NeverStable, LabelsDecided, LabelsPure; every case is "
             "labelled by the real gen.SC_apply and by real SSIcov / SSIdat_MS / pLSCF / pLSCF_MS runs on injected tables (the "
             "single- and multi-setup classes each have their own copy of the labelling call). The judged run is the third run of the same algorithm object (after the strictest hard criteria and other soft tolerances).",
        ref="DESIGN.md §4.5, §5 C10",
        note="Trusted: TLC, harness/poles_world.py. Catalogue values sit >= 10 % away from every tolerance. step = 1.",
        technique="TLC model checking of Poles.tla (Label) + replay of every case through SC_apply and the class runs",
    ),
    "C11": dict(
        text="Poles.tla, action Extract: TLC enumerates labelled tables (spurious poles, missing modes, conjugate twins, "
             "unstable poles) and requests (1..3 frequencies; order int, list, find_min) and computes the admissible "
             "answer cells per request; checks Whole, OnlyIfClose, NearestReturned, Minimal; every case is handed to "
             "SSI_mpe, pLSCF_mpe, SSIcov.mpe, pLSCF.mpe and each returned mode must be bit-identical to one admissible "
             "cell in every attribute (frequency, damping, shape, frequency / damping / shape covariances), reported order included. Includes a user tolerance different from every library default (5 %, pole 2 % off) and an earlier find_min extraction on the same object.",
        ref="DESIGN.md §4.5, §5 C11",
        note="Trusted: TLC, harness/poles_world.py. Frequencies within rtol/10 of a request or >= 10 rtol away. One "
             "listed known finding (pLSCF_mpe find_min never returns anything; pinned by a baseline test).",
        technique="TLC model checking of Poles.tla (Extract) + replay of every case through the four extraction sites",
    ),
    "C20": dict(
        text="Poles.tla, action Draw (MarkersExact): TLC enumerates pole/label tables with NaN, stable and unstable "
             "cells and hide on/off and yields the exact marker cell sets; each case is drawn on the Agg backend by "
             "stab_plot, cluster_plot, SSIcov/pLSCF plot_stab/plot_cluster (with and without covariance error bars) "
             "and the marker artists are projected onto coordinate multisets (order coordinate = value accepted by "
             "extraction). Fdd.tla action DrawCMIF gives the exact dB ratios of the singular-value curves; every table is drawn "
             "without frequency limits and with a window that leaves the peak of the first singular value outside. Every judged diagram is drawn after an earlier diagram (other hide flag) of the same tables / object.",
        ref="DESIGN.md §4.5, §5 C20",
        note="Trusted: TLC, matplotlib artist accessors. Error-bar caps / LineCollections are not markers.",
        technique="TLC model checking of Poles.tla (Draw) / Fdd.tla (DrawCMIF) + replay through the plot functions and methods",
    ),
}

NOT_APPLICABLE = []

PENDING = ["C01", "C02", "C03", "C04", "C05", "C06", "C08", "C09", "C10", "C11", "C12", "C13", "C15", "C16",
           "C17", "C18", "C19", "C20"]


def main():
    checks = []
    for pid in sorted(CHECKS):
        c = CHECKS[pid]
        checks.append({
            "property_id": pid,
            "quick_cmd": f"./check {pid} --tier quick",
            "thorough_cmd": f"./check {pid} --tier thorough",
            "evidence_file": f"/verif/evidence/{pid}.json",
            "replay_cmd_template": f"./check {pid} --replay {{path}}",
            "engine": "tlc+replay",
            "level_claimed": {"category": "model_checking", "text": c["text"], "design_ref": c["ref"]},
            "level_note": c["note"],
            "technique": c.get("technique", TECH),
        })
    na = list(NOT_APPLICABLE)
    for pid in PENDING:
        if pid not in CHECKS:
            na.append(dict(property_id=pid, reason="check not built yet in this round (planned: DESIGN.md §5); "
                                                   "not claimed until its command exists and passes"))
    man = {
        "version": 1,
        "setup_cmd": "./check sany",
        "hooks": {
            "guard": "PYOMA2_VERIF_TRACE",
            "enable": "none needed: /repo is not instrumented; the harness imports pyoma2 from /repo/src (current "
                      "working tree) and wraps public methods from /verif when PYOMA2_VERIF_TRACE names a trace file",
            "baseline_off_cmd": "/verif/tools/baseline.py",
            "source_commits": [],
            "add_only": True,
        },
        "engines": [
            {"name": "tlc+replay", "path": "/verif/check",
             "serves_properties": sorted(CHECKS),
             "kind_free_text": "explicit TLA+ specifications (spec/*.tla) model-checked by TLC; the transition relation "
                               "TLC explores is emitted as JSON and replayed against the real pyoma2 code "
                               "(spec -> code conformance); recorded executions are validated against Trace*.tla "
                               "(code -> spec conformance)"},
        ],
        "checks": checks,
        "not_applicable": sorted(na, key=lambda d: d["property_id"]),
        "notes": "exit 0 held / 1 VIOLATION / 2 machinery failure (never a verdict). known_findings.json is read-only "
                 "at run time. An exception raised below a pyoma2 frame on an input the specification enumerated, and a call "
                 "that does not return within 300 s (VERIF_CASE_LIMIT_S), are violations; a check still running after 1 h "
                 "(quick) / 6 h (thorough) ends with exit 2. Behaviour coverage beyond the listed properties: "
                 "./check extra:session | extra:poser | extra:bell | extra:pickmenu (observations only, not registered as "
                 "checks). See DESIGN.md section 0.",
    }
    with open(os.path.join(HERE, "MANIFEST.json"), "w") as f:
        json.dump(man, f, indent=1)
    print("MANIFEST.json written:", len(checks), "checks,", len(na), "not_applicable")


if __name__ == "__main__":
    main()
